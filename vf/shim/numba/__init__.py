"""Pure-Python stand-in for the part of numba that xgcm.transform uses.

numba is not installed in this sandbox and cannot be fetched, so ``import xgcm.transform``
fails in the pinned environment.  This module provides ``guvectorize`` and the three type
objects xgcm names.  ``guvectorize`` parses the gufunc layout string, broadcasts the loop
dimensions, allocates the output and calls the *undecorated Python kernel from the repository*
once per column.  What the checks observe is therefore the kernel's Python semantics plus all
of xgcm's numpy/xarray wrapper code -- not numba's code generation.

Only /verif's checks put this directory on sys.path (C06-C08, C12, C13, C18, C20).
"""
import re

import numpy as np

__version__ = "0.0-verif-shim"


class _T:
    def __init__(self, name, dtype=None):
        self.name = name
        self.dtype = dtype

    def __getitem__(self, item):
        return _T(self.name + "[:]", self.dtype)


float64 = _T("float64", np.float64)
float32 = _T("float32", np.float32)
boolean = _T("boolean", np.bool_)


def _parse(sig):
    ins, outs = sig.split("->")

    def p(s):
        return [tuple(x for x in g.split(",") if x) for g in re.findall(r"\(([^)]*)\)", s)]

    return p(ins), p(outs)


def guvectorize(ftylist, signature, **kw):
    ins, outs = _parse(signature)
    assert len(outs) == 1

    def deco(func):
        def wrapper(*args):
            args = [np.asarray(a) for a in args]
            if len(args) != len(ins):
                raise TypeError("wrong number of arguments for gufunc")
            sizes = {}
            loop_shapes = []
            for a, core in zip(args, ins):
                nc = len(core)
                if a.ndim < nc:
                    raise ValueError("input has too few dimensions for its core signature")
                cs = a.shape[a.ndim - nc:] if nc else ()
                for name, s in zip(core, cs):
                    if sizes.setdefault(name, s) != s:
                        raise ValueError("core dimension mismatch: %s" % name)
                loop_shapes.append(a.shape[: a.ndim - nc])
            lshape = np.broadcast_shapes(*loop_shapes)
            dt = np.result_type(*[a.dtype for a, core in zip(args, ins) if len(core)])
            if dt not in (np.float32, np.float64):
                dt = np.dtype(np.float64)
            oshape = tuple(sizes[n] for n in outs[0])
            out = np.empty(lshape + oshape, dtype=dt)
            bargs = []
            for a, core in zip(args, ins):
                nc = len(core)
                if nc:
                    a = a.astype(dt, copy=False)
                bargs.append(np.broadcast_to(a, lshape + a.shape[a.ndim - nc:]))
            for idx in np.ndindex(*lshape):
                call = []
                for a, core in zip(bargs, ins):
                    v = a[idx]
                    if len(core) == 0:
                        v = v[()]
                    else:
                        v = np.array(v)  # private copy, the kernel may rebind / slice it
                    call.append(v)
                func(*call, out[idx])
            return out

        wrapper.__wrapped__ = func
        wrapper.__name__ = getattr(func, "__name__", "gufunc")
        return wrapper

    return deco
