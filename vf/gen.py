"""Seeded building blocks shared by the workload generators."""
import itertools

import numpy as np

POSITIONS = ["center", "left", "right", "inner", "outer"]
POS_LEN = {"center": 0, "left": 0, "right": 0, "inner": -1, "outer": 1}
# coordinate of the first point of each position on the unit lattice (cell i spans [i, i+1])
POS_X0 = {"center": 0.5, "left": 0.0, "right": 1.0, "inner": 1.0, "outer": 0.0}
RULES = ["fill", "extend", "periodic"]

AXIS_NAME_POOL = ["X", "Y", "Z", "lon", "lat", "k", "xi", "eta", "T", "depth", "ax1", "W"]
EXTRA_DIM_POOL = ["time", "ens", "tile", "member", "m", "run"]


def coord_values(pos, n):
    return np.arange(n + POS_LEN[pos], dtype=float) + POS_X0[pos]


def random_positions(rng, p=0.5, at_least=2):
    """A subset of the five positions that contains center, in random order."""
    ps = ["center"] + [q for q in POSITIONS[1:] if rng.random() < p]
    while len(ps) < at_least:
        q = rng.choice(POSITIONS[1:])
        if q not in ps:
            ps.append(q)
    rng.shuffle(ps)
    return ps


def random_layout(rng, nax=None, nmin=2, nmax=6, names=None, p=0.5, all_positions=False, at_least=2):
    """Layout descriptor: list of axes, each {"name", "pos": [[position, dim], ...], "n"}."""
    if nax is None:
        nax = rng.randint(1, 3)
    names = names or rng.sample(AXIS_NAME_POOL, nax)
    axes = []
    for a in names[:nax]:
        ps = POSITIONS[:] if all_positions else random_positions(rng, p, at_least)
        if all_positions:
            rng.shuffle(ps)
        axes.append({"name": a, "pos": [[q, f"{a.lower()}_{q[0]}{q[1]}"] for q in ps], "n": rng.randint(nmin, nmax)})
    return {"axes": axes}


def deep(rng, tier, usual, big, p=0.25):
    """Upper size bound of a generator: the thorough tier draws from a wider range in a quarter of its cases."""
    return big if (tier == "thorough" and rng.random() < p) else usual


def layout_coords(layout):
    return {a["name"]: {p: d for p, d in a["pos"]} for a in layout["axes"]}


def layout_sizes(layout):
    s = {}
    for a in layout["axes"]:
        for p, d in a["pos"]:
            s[d] = a["n"] + POS_LEN[p]
    return s


def build_ds(layout, with_coords=True, extra=None):
    import xarray as xr

    c = {}
    holders = {}
    for a in layout["axes"]:
        for p, d in a["pos"]:
            if with_coords is True or (with_coords not in (True, False, None) and d in with_coords):
                c[d] = ((d,), coord_values(p, a["n"]))
            else:
                holders[f"holder_{d}"] = ((d,), np.zeros(a["n"] + POS_LEN[p]))
    ds = xr.Dataset(holders, coords=c)
    for d, n in (extra or {}).items():
        ds = ds.assign_coords({d: ((d,), np.arange(n, dtype=float) * 10)})
    return ds


def quarter_data(seed, shape, lo=-256, hi=256):
    """Exact-safe data: multiples of 1/4 in [lo/4, hi/4]."""
    g = np.random.default_rng(int(seed) & 0xFFFFFFFF)
    return g.integers(lo, hi + 1, size=tuple(shape)).astype(float) / 4.0


def int_data(seed, shape, lo=1, hi=8):
    g = np.random.default_rng(int(seed) & 0xFFFFFFFF)
    return g.integers(lo, hi + 1, size=tuple(shape)).astype(float)


def unique_data(shape, start=1):
    n = int(np.prod(shape)) if len(shape) else 1
    return (np.arange(n, dtype=float) + start).reshape(shape)


HOSTILE = [0.0, -0.0, 5e-324, -5e-324, 2.2250738585072014e-308, 1e308, -1e308, 1.7976931348623157e308,
           1.0, -1.0, 1e-300, 3.0, 1e16, 1 + 2.0**-52, 0.1, -0.3]


def hostile_data(seed, shape):
    g = np.random.default_rng(int(seed) & 0xFFFFFFFF)
    idx = g.integers(0, len(HOSTILE), size=tuple(shape))
    return np.array(HOSTILE)[idx]


def make_data(kind, seed, shape):
    if kind == "quarter":
        return quarter_data(seed, shape)
    if kind == "hostile":
        return hostile_data(seed, shape)
    if kind == "unique":
        return unique_data(shape, start=1 + (int(seed) % 7) * 1000)
    if kind == "int":
        return int_data(seed, shape)
    raise ValueError(kind)


def random_spelling(rng, axes, choices, p_none=0.3, allow_partial=True, none_ok=True):
    """None / scalar / total mapping / partial mapping over the axes."""
    r = rng.random()
    if none_ok and r < p_none:
        return None
    k = rng.random()
    if allow_partial and k < 0.04:
        return {}  # a mapping naming no axis at all: everything falls through to the next level
    if k < 0.35:
        return rng.choice(choices)
    if k < 0.7 or not allow_partial or len(axes) == 1:
        return {a: rng.choice(choices) for a in axes}
    sub = rng.sample(list(axes), rng.randint(1, len(axes)))
    return {a: rng.choice(choices) for a in sub}


def compositions(n):
    """All compositions of n (ordered tuples of positive ints summing to n)."""
    out = []
    for mask in range(1 << (n - 1)):
        parts, cur = [], 1
        for b in range(n - 1):
            if mask >> b & 1:
                parts.append(cur)
                cur = 1
            else:
                cur += 1
        parts.append(cur)
        out.append(tuple(parts))
    return out


def random_composition(rng, n):
    if n <= 0:
        return (n,)
    mask = rng.getrandbits(n - 1) if n > 1 else 0
    parts, cur = [], 1
    for b in range(n - 1):
        if mask >> b & 1:
            parts.append(cur)
            cur = 1
        else:
            cur += 1
    parts.append(cur)
    return tuple(parts)
