"""Driver / shard runner shared by all checks.

A check module ``vf.checks.cNN`` provides

    ID, RULE, BUDGET = {"quick": n, "thorough": n}, NEEDS_SHIM (bool),
    REQUIRED_REACH = [qualified function names that the workload must enter],
    gen_case(rng, i, tier) -> JSON-able descriptor   (or None to skip index i)
    run_case(ctx, desc)                              (judges the case, reports through ctx)
    optional: selftest(ctx)  (oracle cross-checks; failure => inconclusive)
    optional: finalize(merged) -> list of extra inconclusive reasons
    optional: ASSUMPTIONS, EXHAUSTIVE, MIN_EVALS, custom_driver(drv)

Verdicts are three-valued: held (exit 0), violated (exit 1, VIOLATION line),
inconclusive (exit 2, INCONCLUSIVE line).
"""

import hashlib
import importlib
import json
import os
import random
import subprocess
import sys
import time
import traceback

VERIF = os.path.dirname(os.path.dirname(os.path.abspath(__file__)))
REPO = os.environ.get("VERIF_REPO", "/repo")
PY = os.environ.get("VERIF_PY", "/venv/bin/python")
SHIM = os.path.join(VERIF, "vf", "shim")
GUARD = "XGCM_VERIF"


def child_env(needs_shim, hashseed="0"):
    env = dict(os.environ)
    pp = [REPO, VERIF]
    if needs_shim:
        pp.append(SHIM)
    env["PYTHONPATH"] = os.pathsep.join(pp)
    env["PYTHONHASHSEED"] = str(hashseed)
    env["PYTHONDONTWRITEBYTECODE"] = "1"
    env["PYTHONWARNINGS"] = "ignore"
    env[GUARD] = "1"
    env["VERIF_REPO"] = REPO
    env.setdefault("OMP_NUM_THREADS", "1")
    env.setdefault("OPENBLAS_NUM_THREADS", "1")
    env.setdefault("MKL_NUM_THREADS", "1")
    return env


def jsonable(x):
    """Best-effort conversion of descriptors/details into JSON."""
    import numpy as np

    if isinstance(x, dict):
        return {str(k): jsonable(v) for k, v in x.items()}
    if isinstance(x, (list, tuple, set, frozenset)):
        return [jsonable(v) for v in (sorted(x, key=repr) if isinstance(x, (set, frozenset)) else x)]
    if isinstance(x, (np.integer,)):
        return int(x)
    if isinstance(x, (np.floating,)):
        return float(x)
    if isinstance(x, np.bool_):
        return bool(x)
    if isinstance(x, np.ndarray):
        return x.tolist()
    if isinstance(x, (str, int, float, bool)) or x is None:
        return x
    return repr(x)


class Reach:
    """sys.monitoring recorder of which repository functions the workload entered."""

    def __init__(self, root):
        self.root = os.path.join(os.path.realpath(root), "xgcm") + os.sep
        self.seen = set()
        self.active = False

    def start(self):
        mon = getattr(sys, "monitoring", None)
        if mon is None:
            return
        tid = mon.COVERAGE_ID
        try:
            mon.use_tool_id(tid, "vf-reach")
        except ValueError:
            return
        root = self.root
        seen = self.seen

        def on_start(code, offset):
            fn = code.co_filename
            if fn.startswith(root) and "/test/" not in fn:
                mod = fn[len(root):-3].replace(os.sep, ".")
                seen.add(f"xgcm.{mod}.{code.co_qualname}")
            return mon.DISABLE

        mon.register_callback(tid, mon.events.PY_START, on_start)
        mon.set_events(tid, mon.events.PY_START)
        self.active = True


class Ctx:
    """Handed to run_case(); collects what the monitors observed."""

    MAX_SAMPLES = 4
    MAX_VIOL = 40

    def __init__(self, check_id, tier, seed, shard=0, nshards=1):
        self.check_id = check_id
        self.tier = tier
        self.seed = seed
        self.shard = shard
        self.nshards = nshards
        self.evaluations = 0
        self.classes = set()
        self.violations = []
        self.viol_counts = {}
        self.samples = []
        self.counters = {}
        self.sets = {}
        self.case_index = None
        self.case_desc = None
        self.inconclusive = []
        self.records = {}

    # -- random streams ---------------------------------------------------
    def rng(self, i, salt=""):
        return random.Random(f"{self.seed}/{self.check_id}/{self.tier}/{i}/{salt}")

    # -- reporting ----------------------------------------------------------
    def judged(self, classkey=None, nontrivial=True, n=1):
        """One (or n) monitor verdict(s) issued."""
        self.evaluations += n
        if nontrivial and classkey is not None:
            self.classes.add(json.dumps(jsonable(classkey), sort_keys=True))

    def count(self, name, n=1):
        self.counters[name] = self.counters.get(name, 0) + n

    def note(self, setname, item):
        self.sets.setdefault(setname, set()).add(json.dumps(jsonable(item), sort_keys=True))

    def sample(self, desc):
        if len(self.samples) < self.MAX_SAMPLES:
            self.samples.append(jsonable(desc))

    def violation(self, oracle, detail, mechanism=None, desc=None):
        """A monitor observed a refuting event.

        mechanism: key of a known mechanism as computed by the check's classifier from the
        *case descriptor and the failing oracle* (never from random values), or None.
        """
        key = mechanism or "-"
        self.viol_counts[key] = self.viol_counts.get(key, 0) + 1
        self.count("violations_observed")
        if sum(1 for v in self.violations if (v["mechanism"] or "-") == key) >= (3 if mechanism else self.MAX_VIOL):
            return
        self.violations.append(
            {
                "property": self.check_id,
                "oracle": oracle,
                "mechanism": mechanism,
                "detail": str(detail)[:1500],
                "index": self.case_index,
                "case": jsonable(desc if desc is not None else self.case_desc),
                "seed": self.seed,
                "tier": self.tier,
            }
        )

    def record(self, key, value):
        """Per-case record handed back to the driver (used by the differential checks C12/C13)."""
        self.records[str(key)] = value

    def inconclusive_reason(self, reason):
        self.inconclusive.append(reason)

    def result(self):
        return {
            "evaluations": self.evaluations,
            "classes": sorted(self.classes),
            "violations": self.violations,
            "viol_counts": self.viol_counts,
            "samples": self.samples,
            "counters": self.counters,
            "sets": {k: sorted(v) for k, v in self.sets.items()},
            "inconclusive": self.inconclusive,
            "records": self.records,
        }


def load_check(check_id):
    return importlib.import_module(f"vf.checks.{check_id.lower()}")


def budget_of(mod, tier):
    b = mod.BUDGET[tier]
    scale = float(os.environ.get("VERIF_SCALE", "1"))
    return max(1, int(b * scale))


# ---------------------------------------------------------------------------
# shard side


def run_shard(check_id, tier, seed, shard, nshards, out_path):
    t0 = time.time()
    mod = load_check(check_id)
    reach = Reach(REPO)
    reach.start()
    ctx = Ctx(check_id, tier, seed, shard, nshards)
    import warnings

    warnings.simplefilter("ignore")
    try:
        import xgcm  # noqa: F401

        xgcm_file = os.path.realpath(xgcm.__file__)
        if not xgcm_file.startswith(os.path.realpath(REPO) + os.sep):
            ctx.inconclusive_reason(f"xgcm imported from {xgcm_file}, not from {REPO}")
    except Exception as e:  # the tree does not even import: everything downstream is meaningless
        ctx.inconclusive_reason(f"import xgcm failed: {type(e).__name__}: {e}")
    if not ctx.inconclusive:
        if shard == 0 and hasattr(mod, "selftest"):
            try:
                mod.selftest(ctx)
            except Exception:
                ctx.inconclusive_reason("oracle-selftest: " + traceback.format_exc()[-600:])
        n = budget_of(mod, tier)
        deadline = t0 + float(os.environ.get("VERIF_SHARD_DEADLINE", "3000"))
        for i in range(shard, n, nshards):
            if time.time() > deadline:
                ctx.inconclusive_reason(f"shard {shard} hit its deadline at case {i}")
                break
            rng = ctx.rng(i)
            try:
                desc = mod.gen_case(rng, i, tier)
            except Exception:
                ctx.inconclusive_reason("generator crashed: " + traceback.format_exc()[-600:])
                break
            if desc is None:
                continue
            ctx.case_index = i
            ctx.case_desc = desc
            try:
                mod.run_case(ctx, desc)
            except Exception:
                # a crash of the harness itself (not of xgcm, which run_case must catch) is not a verdict
                ctx.inconclusive_reason(
                    f"harness crashed on case {i}: " + traceback.format_exc()[-900:]
                )
                break
        if hasattr(mod, "end_shard"):
            mod.end_shard(ctx)
    res = ctx.result()
    res["reached"] = sorted(reach.seen)
    res["reach_active"] = reach.active
    res["wall_s"] = time.time() - t0
    with open(out_path, "w") as f:
        json.dump(res, f)


# ---------------------------------------------------------------------------
# driver side


def load_findings():
    p = os.path.join(VERIF, "known_findings.json")
    if not os.path.exists(p):
        return []
    with open(p) as f:
        return json.load(f)["findings"]


def merge(results):
    m = {
        "evaluations": 0,
        "classes": set(),
        "violations": [],
        "viol_counts": {},
        "samples": [],
        "counters": {},
        "sets": {},
        "inconclusive": [],
        "reached": set(),
        "reach_active": True,
    }
    for r in results:
        m["evaluations"] += r["evaluations"]
        m["classes"].update(r["classes"])
        m["violations"].extend(r["violations"])
        for k, v in r["viol_counts"].items():
            m["viol_counts"][k] = m["viol_counts"].get(k, 0) + v
        for s in r["samples"]:
            if len(m["samples"]) < 5:
                m["samples"].append(s)
        for k, v in r["counters"].items():
            m["counters"][k] = m["counters"].get(k, 0) + v
        for k, v in r["sets"].items():
            m["sets"].setdefault(k, set()).update(v)
        m["inconclusive"].extend(r["inconclusive"])
        m["reached"].update(r.get("reached", []))
        m["reach_active"] = m["reach_active"] and r.get("reach_active", False)
    return m


def drive(check_id, tier, seed, replay=None):
    t0 = time.time()
    mod = load_check(check_id)
    if replay:
        return do_replay(mod, check_id, replay)
    work = os.path.join(VERIF, ".work", f"{check_id}-{tier}-{seed}-{os.getpid()}")
    os.makedirs(work, exist_ok=True)
    os.makedirs(os.path.join(VERIF, "evidence"), exist_ok=True)
    os.makedirs(os.path.join(VERIF, "replays"), exist_ok=True)
    if hasattr(mod, "custom_driver"):
        results, extra = mod.custom_driver(tier, seed, work)
    else:
        results, extra = run_shards(mod, check_id, tier, seed, work)
    m = merge(results)
    m["inconclusive"].extend(extra)
    if hasattr(mod, "finalize"):
        m["inconclusive"].extend(mod.finalize(m) or [])
    # reach monitor: evidence of which anchored functions the workload entered.  It is reported, not judged: the
    # functions are internal names, and a correct refactoring that renames or inlines one must not make a check fail
    # (DESIGN.md section 6).  What must have been reached is decided behaviourally (MIN_EVALS, class counts).
    min_evals = getattr(mod, "MIN_EVALS", {"quick": 50, "thorough": 200})[tier]
    if m["evaluations"] < min_evals:
        m["inconclusive"].append(f"only {m['evaluations']} verdicts issued (< {min_evals})")
    if len(m["classes"]) < 2:
        m["inconclusive"].append("fewer than 2 distinct non-trivial case classes judged")

    # classify violations against the committed known-findings file (read-only)
    open_keys = {
        f["key"]: f for f in load_findings() if f["property"] == check_id and f.get("status") == "open"
    }
    known_seen = {}
    unknown = []
    for v in m["violations"]:
        k = v["mechanism"]
        if k and k in open_keys:
            known_seen.setdefault(k, v)
        else:
            unknown.append(v)
    lines = []
    for k, v in sorted(known_seen.items()):
        lines.append(
            f"KNOWN-FINDING: property={check_id} key={k} {open_keys[k]['what']} "
            f"(observed {m['viol_counts'].get(k, 0)}x this run)"
        )
    replay_paths = []
    for n, v in enumerate(unknown[:10]):
        rp = os.path.join("replays", f"{check_id}-{tier}-{seed}-{n}.json")
        with open(os.path.join(VERIF, rp), "w") as f:
            json.dump(v, f, indent=1)
        replay_paths.append(rp)
        lines.append(f"VIOLATION property={check_id} replay={rp}")
        lines.append(f"  oracle={v['oracle']} mechanism={v['mechanism']} detail={v['detail'][:300]}")
    n_unknown = sum(c for k, c in m["viol_counts"].items() if k not in open_keys)
    wall = time.time() - t0
    coverage = {
        "evaluations": int(m["evaluations"]),
        "distinct_nontrivial": len(m["classes"]),
        "rule": mod.RULE,
        "samples": m["samples"],
        "counters": m["counters"],
        "observed_sets": {k: sorted(v)[:60] for k, v in m["sets"].items()},
        "observed_set_sizes": {k: len(v) for k, v in m["sets"].items()},
        "repo_functions_entered": len(m["reached"]),
        "anchor_functions_entered": {q: (q in m["reached"]) for q in getattr(mod, "REQUIRED_REACH", [])},
        "known_findings_seen": {k: m["viol_counts"].get(k, 0) for k in known_seen},
        "inconclusive": m["inconclusive"],
        "shards": len(results),
        "repo": REPO,
    }
    if getattr(mod, "EXHAUSTIVE", None):
        coverage["exhaustive"] = bool(mod.EXHAUSTIVE.get(tier, False)) if isinstance(mod.EXHAUSTIVE, dict) else True
        coverage["exhaustive_note"] = getattr(mod, "EXHAUSTIVE_NOTE", "")
    ev = {
        "property_id": check_id,
        "tier": tier,
        "seed": int(seed),
        "level": "exploration",
        "coverage": coverage,
        "assumptions": list(getattr(mod, "ASSUMPTIONS", []))
        + [
            "numpy / xarray / dask behave as documented (prebuilt wheels, not instrumented)",
            "the reference models in /verif/vf/models are right (cross-checked at start-up where two formulations exist)",
        ],
        "wall_s": round(wall, 2),
        "violations": int(n_unknown),
        "verdict": "violated" if unknown else ("inconclusive" if m["inconclusive"] else "held"),
    }
    evdir = os.environ.get("VERIF_EVIDENCE_DIR", os.path.join(VERIF, "evidence"))
    os.makedirs(evdir, exist_ok=True)
    with open(os.path.join(evdir, f"{check_id}.json"), "w") as f:
        json.dump(ev, f, indent=1)
    for ln in lines:
        print(ln)
    print(
        f"{check_id} tier={tier} seed={seed} verdicts={m['evaluations']} classes={len(m['classes'])} "
        f"unknown_violations={n_unknown} known={sum(m['viol_counts'].get(k, 0) for k in known_seen)} "
        f"wall={wall:.1f}s"
    )
    try:
        import shutil

        shutil.rmtree(work, ignore_errors=True)
    except Exception:
        pass
    if unknown:
        return 1
    if m["inconclusive"]:
        for r in m["inconclusive"][:5]:
            print(f"INCONCLUSIVE property={check_id} reason={r[:400]}")
        return 2
    return 0


def run_jobs(mod, check_id, tier, seed, work, jobs):
    """jobs: list of (tag, hashseed, shard k, nshards, extra_env).  Runs them with at most VERIF_JOBS at a time.
    -> ({tag: result dict}, [inconclusive reasons])"""
    ncpu = int(os.environ.get("VERIF_JOBS", os.cpu_count() or 4))
    timeout = float(os.environ.get("VERIF_SHARD_TIMEOUT", "3300"))
    pending = list(jobs)
    running = []
    results, extra = {}, []
    t0 = time.time()

    def reap(block):
        for item in list(running):
            tag, out, p, logf = item
            if p.poll() is None:
                if time.time() - t0 > timeout:
                    p.kill()
                    p.wait()
                    extra.append(f"job {tag} timed out (watchdog)")
                    running.remove(item)
                continue
            running.remove(item)
            logf.seek(0)
            so = logf.read()
            logf.close()
            if p.returncode != 0 or not os.path.exists(out):
                extra.append(f"job {tag} died rc={p.returncode}: {so[-500:]}")
                continue
            with open(out) as f:
                results[tag] = json.load(f)

    while pending or running:
        while pending and len(running) < ncpu:
            tag, hashseed, k, n, extra_env = pending.pop(0)
            env = child_env(getattr(mod, "NEEDS_SHIM", False), hashseed)
            if extra_env:
                env.update(extra_env)
            out = os.path.join(work, f"{tag}.json")
            cmd = [PY, "-m", "vf.core", "--shard", check_id, tier, str(seed), str(k), str(n), out]
            logf = open(os.path.join(work, f"{tag}.log"), "w+")
            running.append((tag, out, subprocess.Popen(cmd, env=env, cwd=VERIF, stdout=logf, stderr=subprocess.STDOUT), logf))
        reap(False)
        if running:
            time.sleep(0.05)
    return results, extra


def run_shards(mod, check_id, tier, seed, work, hashseed="0", tag="s", extra_env=None):
    n = budget_of(mod, tier)
    ncpu = int(os.environ.get("VERIF_JOBS", os.cpu_count() or 4))
    min_per = getattr(mod, "MIN_CASES_PER_SHARD", 8)
    nshards = max(1, min(ncpu, n // min_per if n >= min_per else 1))
    jobs = [(f"{tag}{k}", hashseed, k, nshards, extra_env) for k in range(nshards)]
    res, extra = run_jobs(mod, check_id, tier, seed, work, jobs)
    return [res[t] for t, *_ in jobs if t in res], extra


def do_replay(mod, check_id, path):
    with open(path) as f:
        v = json.load(f)
    env = child_env(getattr(mod, "NEEDS_SHIM", False))
    cmd = [PY, "-m", "vf.core", "--replay-child", check_id, path]
    return subprocess.call(cmd, env=env, cwd=VERIF)


def replay_child(check_id, path):
    mod = load_check(check_id)
    with open(path) as f:
        v = json.load(f)
    ctx = Ctx(check_id, v.get("tier", "quick"), v.get("seed", 0))
    ctx.case_index = v.get("index")
    ctx.case_desc = v["case"]
    import warnings

    warnings.simplefilter("ignore")
    mod.run_case(ctx, v["case"])
    if ctx.violations:
        for w in ctx.violations:
            print(f"VIOLATION property={check_id} replay={path}")
            print(f"  oracle={w['oracle']} mechanism={w['mechanism']} detail={w['detail'][:600]}")
        return 1
    print(f"replay of {path}: held ({ctx.evaluations} verdicts)")
    return 0


def main(argv):
    if argv and argv[0] == "--shard":
        _, cid, tier, seed, k, n, out = argv
        run_shard(cid, tier, int(seed), int(k), int(n), out)
        return 0
    if argv and argv[0] == "--replay-child":
        return replay_child(argv[1], argv[2])
    import argparse

    ap = argparse.ArgumentParser(prog="check")
    ap.add_argument("check")
    ap.add_argument("--tier", default=os.environ.get("VERIF_TIER", "quick"), choices=["quick", "thorough"])
    ap.add_argument("--seed", type=int, default=int(os.environ.get("VERIF_SEED", "0")))
    ap.add_argument("--replay")
    a = ap.parse_args(argv)
    return drive(a.check.upper(), a.tier, a.seed, a.replay)


if __name__ == "__main__":
    sys.exit(main(sys.argv[1:]))
