"""C09 - cumsum is the running sum at the shifted position and inverts diff."""
import itertools

import numpy as np

from .. import gen
from ..models import resolve, stencil
from . import c01

ID = "C09"
NEEDS_SHIM = False
BUDGET = {"quick": 1500, "thorough": 160000}
MIN_EVALS = {"quick": 2000, "thorough": 50000}
RULE = (
    "seeded random cases: layout (1-3 axes, random position sets, 2-6 cells; single-axis metrics registered at every "
    "position) x constructor boundary/fill spellings x cumsum over 1-3 axes in random order with per-call spellings, "
    "`to` given or omitted, optional metric_weighted, extra dims, shuffled order; exact-safe data. Verdicts per case: "
    "(1) values/dims vs the geometric running-sum model incl. the rule-supplied leading value; (2) "
    "diff(cumsum(to=outer, fill 0)) == input exactly; (3) all axis orders agree when no non-zero fill is in force; "
    "(4) cumint == cumsum(data*metric); (5) last value of cumint to outer/right == integrate. Class = (verdict kind, "
    "per-axis (from,to,rule), weighted, #extra); non-trivial iff a leading value is needed or several axes are named."
)
REQUIRED_REACH = ["xgcm.grid.Grid.cumsum", "xgcm.grid.Grid.cumint", "xgcm.grid.Grid.integrate", "xgcm.padding.pad"]
FILLS = [0, -3.25, 7, 2.5]


def gen_case(rng, i, tier):
    layout = gen.random_layout(rng, nmin=2, nmax=gen.deep(rng, tier, 6, 11), p=0.55)
    axes = layout["axes"]
    axn = [a["name"] for a in axes]
    cm = gen.layout_coords(layout)
    ctor = c01.gen_ctor(rng, axn)
    k = rng.randint(1, len(axn))
    opax = rng.sample(axn, k)
    pos = {a: rng.choice(list(cm[a])) for a in axn}
    to = {a: (rng.choice([p for p in cm[a] if p != "center"]) if pos[a] == "center" else "center") for a in opax}
    dims = [cm[a][pos[a]] for a in axn if a in opax or rng.random() < 0.5]
    extra = {}
    for e in rng.sample(gen.EXTRA_DIM_POOL, rng.choice([0, 1, 1, 2])):
        extra[e] = rng.randint(1, 3)
        dims.append(e)
    rng.shuffle(dims)
    call = {"axis": opax if (len(opax) > 1 or rng.random() < 0.5) else opax[0]}
    if rng.random() < 0.7:
        call["to"] = to[opax[0]] if (len(set(to.values())) == 1 and rng.random() < 0.4) else dict(to)
    b = gen.random_spelling(rng, axn, gen.RULES, p_none=0.3)
    f = gen.random_spelling(rng, axn, FILLS, p_none=0.3)
    if b is not None:
        call["boundary"] = b
    if f is not None:
        call["fill_value"] = f
    if rng.random() < 0.25:
        # weight every operated axis by its own metric, in one of the accepted spellings
        call["metric_weighted"] = rng.choice(["dict-str", "dict-list"])
    dtype = rng.choice(["float64"] * 8 + ["int64", "bool"])
    if dtype != "float64":
        # integer-typed data (counts, masks) only with integer-valued fills: numpy pads an integer array with the fill
        # value cast to its dtype, and what a fractional fill should mean there is not part of the statement
        def intfill(f):
            return {k: intfill(v) for k, v in f.items()} if isinstance(f, dict) else (f if f is None or float(f).is_integer() else 3)

        ctor["fill_value"] = intfill(ctor.get("fill_value"))
        if "fill_value" in call:
            call["fill_value"] = intfill(call["fill_value"])
        call.pop("metric_weighted", None)
    return {
        "layout": layout, "ctor": ctor, "pos": pos, "dims": dims, "extra": extra,
        "data": {"kind": "quarter", "seed": rng.getrandbits(31), "dtype": dtype}, "mseed": rng.getrandbits(31),
        "call": call, "name": "v",
    }


def build(desc):
    """Dataset with a single-axis integer metric at every position of every axis."""
    from xgcm import Grid

    ds = gen.build_ds(desc["layout"], extra=desc.get("extra"))
    mets = {}
    r = np.random.default_rng(desc["mseed"])
    for a in desc["layout"]["axes"]:
        names = []
        for p, d in a["pos"]:
            nm = f"m_{d}"
            # non-uniform quarter-integer metrics: products with quarter-integer (or integer) data stay exact
            ds[nm] = ((d,), r.integers(1, 33, size=ds.sizes[d]).astype(float) / 4)
            names.append(nm)
        mets[(a["name"],)] = names
    ctor = {k: v for k, v in desc["ctor"].items() if v is not None or k == "periodic"}
    if desc.get("lazy_metrics"):
        # the grid dataset itself is dask-backed (as after open_dataset(chunks=...)): the metrics are lazy arrays
        # (one chunk per variable: how a metric chunked *along the operated axis* should interact with unchunked
        # data is not part of any statement - it fails today in the metric_weighted path - and is not drawn)
        ds = ds.chunk({d: -1 for d in ds.dims})
    g = Grid(ds, coords=gen.layout_coords(desc["layout"]), autoparse_metadata=False, metrics=mets, **ctor)
    return ds, g


def model_cumsum(desc, vals, dims, opax, to_eff, ds, weighted=False, call=None):
    cm = gen.layout_coords(desc["layout"])
    ns = {a["name"]: a["n"] for a in desc["layout"]["axes"]}
    call = call if call is not None else desc["call"]
    cur = np.asarray(vals, float)
    cur_dims = list(dims)
    for a in opax:
        d = cm[a][desc["pos"][a]]
        nd = cm[a][to_eff[a]]
        rule, fv = resolve.in_force(a, desc["ctor"], call)
        k = cur_dims.index(d)
        moved = np.moveaxis(cur, k, -1)
        if weighted:
            moved = moved * ds[f"m_{d}"].values
        res = stencil.cumsum_last_axis(moved, desc["pos"][a], to_eff[a], ns[a], rule, fv)
        if weighted:
            res = res / ds[f"m_{nd}"].values
        cur = np.moveaxis(res, -1, k)
        cur_dims[k] = nd
    return cur, cur_dims


def has_lead(frm, to):
    return (frm, to) in {("center", "left"), ("right", "center"), ("center", "outer"), ("inner", "center")}


def run_case(ctx, desc):
    call = desc["call"]
    try:
        ds, g = build(desc)
    except Exception as e:
        ctx.judged(("ctor-raise",), True)
        ctx.violation("grid-constructor-accepts", f"Grid(...) raised {type(e).__name__}: {e}")
        return
    da = c01.make_da(desc, ds)
    dt = desc["data"].get("dtype", "float64")
    if dt == "int64":
        da = (da * 4).astype("int64")
    elif dt == "bool":
        da = da > 0
    d2 = dict(desc)
    opax, to_eff = c01.effective_to(d2)
    cm = gen.layout_coords(desc["layout"])
    rules = {a: resolve.in_force(a, desc["ctor"], call) for a in opax}
    weighted = "metric_weighted" in call
    kw = {k: call[k] for k in ("to", "boundary", "fill_value") if k in call}
    if weighted:
        kw["metric_weighted"] = {a: (a if call["metric_weighted"] == "dict-str" else [a]) for a in opax}
    shifts = [(desc["pos"][a], to_eff[a], rules[a][0]) for a in opax]
    nontrivial = len(opax) > 1 or any(has_lead(desc["pos"][a], to_eff[a]) for a in opax)
    ckey = ("model", shifts, weighted, len(desc["extra"]), "to" in call, dt)
    ctx.judged(ckey, nontrivial)
    # several axes are documented as "list or tuple": both spellings name the same axes (a one-shot iterator is not drawn:
    # the documentation does not promise it, and diff/interp on the unchanged tree do not handle one either - DESIGN L19)
    axis_arg = call["axis"]
    if isinstance(axis_arg, list):
        how = desc["data"]["seed"] % 4
        axis_arg = tuple(axis_arg) if how in (1, 2) else axis_arg
    try:
        r = g.cumsum(da, axis_arg, **kw)
    except Exception as e:
        ctx.violation("well-posed-call-returns", f"cumsum raised {type(e).__name__}: {str(e)[:300]}")
        return
    exp, exp_dims = model_cumsum(desc, da.values.astype(float), da.dims, opax, to_eff, ds, weighted)
    if ctx.evaluations % 50 == 1:
        ctx.sample({"case": desc, "expected_dims": exp_dims})
    if set(r.dims) != set(exp_dims) or r.transpose(*exp_dims).shape != exp.shape:
        ctx.violation("cumsum-dims", f"dims {r.dims} sizes {dict(r.sizes)}; expected {exp_dims} {exp.shape}")
        return
    got = np.asarray(r.transpose(*exp_dims).values, float)
    same = np.allclose(got, exp, rtol=1e-12, atol=0) if (weighted and len(opax) > 1) else np.array_equal(got, exp)
    if not same:
        w = tuple(np.argwhere(got != exp)[0])
        ctx.violation("cumsum-values", f"{shifts} weighted={weighted}: at {w} got {got[w]} expected {exp[w]}")
        return

    # (3) order independence
    if len(opax) > 1 and not weighted:
        nonzero_fill = any(rules[a][0] == "fill" and rules[a][1] != 0 for a in opax)
        if not nonzero_fill:
            ctx.judged(("order", sorted(shifts)), True)
            for perm in itertools.permutations(opax):
                if list(perm) == opax:
                    continue
                try:
                    rp = g.cumsum(da, list(perm), **kw)
                    if not np.array_equal(rp.transpose(*exp_dims).values, got):
                        ctx.violation("cumsum-order-independent", f"axis order {perm} differs from {opax}; {shifts}")
                        break
                except Exception as e:
                    ctx.violation("cumsum-order-independent", f"order {perm} raised {type(e).__name__}: {str(e)[:200]}")
                    break

    # (2) inverse of diff: only for an axis on center that has outer
    cand = [a for a in opax if desc["pos"][a] == "center" and "outer" in cm[a]]
    if cand:
        a = cand[0]
        ctx.judged(("inverse", len(desc["extra"])), True)
        try:
            c = g.cumsum(da, a, to="outer", boundary="fill", fill_value=0)
            back = g.diff(c, a, to="center")
            if tuple(back.dims) != tuple(da.dims) or not np.array_equal(np.asarray(back.values, float), da.values.astype(float)):
                ctx.violation("diff-inverts-cumsum", f"diff(cumsum(x,{a},to=outer,fill 0)) != x")
        except Exception as e:
            ctx.violation("diff-inverts-cumsum", f"raised {type(e).__name__}: {str(e)[:200]}")

    # (4) cumint == cumsum(data*metric) and (5) last value == integrate
    if not weighted:
        kwi = {k: v for k, v in kw.items()}
        ctx.judged(("cumint", shifts), nontrivial)
        try:
            ci = g.cumint(da, call["axis"], **kwi)
            w = da
            for a in opax:
                w = w * ds[f"m_{cm[a][desc['pos'][a]]}"]
            w = w.transpose(*da.dims)
            expci, _ = model_cumsum(desc, w.values, da.dims, opax, to_eff, ds)
            if set(ci.dims) != set(exp_dims) or not np.array_equal(ci.transpose(*exp_dims).values, expci):
                ctx.violation("cumint-is-cumsum-of-weighted", f"cumint {shifts} differs from model cumsum(data*metric)")
            cs = g.cumsum(w, call["axis"], **kwi)
            if not np.array_equal(cs.transpose(*exp_dims).values, ci.transpose(*exp_dims).values):
                ctx.violation("cumint-is-cumsum-of-weighted", f"cumint differs from observed cumsum(data*metric) {shifts}")
            if all(desc["pos"][a] == "center" and to_eff[a] in ("outer", "right") for a in opax):
                ctx.judged(("cumint-last", [to_eff[a] for a in opax]), True)
                it = g.integrate(da, opax if len(opax) > 1 else opax[0])
                last = ci.isel({cm[a][to_eff[a]]: -1 for a in opax})
                if set(last.dims) != set(it.dims) or not np.array_equal(last.transpose(*it.dims).values, it.values):
                    ctx.violation("cumint-last-is-integrate", f"last value of cumint {shifts} != integrate")
        except Exception as e:
            ctx.violation("cumint-is-cumsum-of-weighted", f"raised {type(e).__name__}: {str(e)[:300]}")
    # (6) the cell metric of one axis is replaced (set_metrics with overwrite) after the Grid has already integrated with the
    # old one: cumint follows the metric registered *now*, also where it is a product of per-axis metrics
    if not weighted and desc["data"]["seed"] % 3 == 0:
        a = opax[desc["data"]["seed"] % len(opax)]
        old = f"m_{cm[a][desc['pos'][a]]}"
        new = old + "_new"
        ds[new] = (ds[old].dims, ds[old].values * 2 + 0.25)
        ctx.judged(("cumint-after-overwrite", len(opax)), True)
        try:
            g.set_metrics((a,), new, overwrite=True)
            ci2 = g.cumint(da, call["axis"], **{k: v for k, v in kw.items()})
            w2 = da
            for b in opax:
                w2 = w2 * ds[new if b == a else f"m_{cm[b][desc['pos'][b]]}"]
            expci2, _ = model_cumsum(desc, w2.transpose(*da.dims).values, da.dims, opax, to_eff, ds)
            if set(ci2.dims) != set(exp_dims) or not np.array_equal(ci2.transpose(*exp_dims).values, expci2):
                ctx.violation("cumint-is-cumsum-of-weighted", f"after set_metrics(({a!r},), {new!r}, overwrite=True): cumint {shifts} over {opax} differs from cumsum(data * metric) with the "
                                                              f"metric registered now")
        except Exception as e:
            ctx.violation("cumint-is-cumsum-of-weighted", f"cumint after a metric was replaced raised {type(e).__name__}: {str(e)[:250]}")
