"""C17 - only reciprocal face-connection tables are accepted."""
import itertools

import numpy as np

from ..models import linktable

ID = "C17"
NEEDS_SHIM = False
RULE = (
    "every table is handed over written with tuples, with lists for the links, for the pairs, or for both, and with reverse flags as bool, 0/1 or NumPy booleans (by case index); "
    "enumerated: all 625 link tables over 2 faces x 1 axis (exhaustive in both tiers); every single edit (both tiers) and "
    "every double edit (thorough: exhaustive; quick: seeded sample) of 7 consistent base tables over 2 faces x 2 axes and "
    "3 faces, where an edit replaces a link by None or by any (face in {0,1,2,7}, axis in {X,Y,Q}, reverse) triple; plus "
    "seeded random reciprocal tables of 1-6 faces with self-links (must be accepted), tables with two face dimensions and "
    "with a face dimension missing from the dataset or naming a variable / non-index coordinate instead of a dimension, and reciprocal tables one of whose faces is consistently renumbered to a number the face dimension lacks (-1, -2, nf, nf+3), and reciprocal tables one of whose axes is consistently renamed to a name the Grid lacks or that are handed to a Grid lacking one of their axes (must be refused). Oracle: independent reciprocity predicate; any "
    "exception counts as refusal. Class = (table family, #links, kinds of links present, model verdict); non-trivial iff "
    "the table has at least one link."
)
REQUIRED_REACH = ["xgcm.grid.Grid._assign_face_connections"]
EXHAUSTIVE = {"quick": False, "thorough": True}
EXHAUSTIVE_NOTE = ("both tiers enumerate the 625 two-face one-axis tables and all single edits completely; the thorough "
                   "tier also enumerates all double edits of the base tables; random tables are sampled")

OPTS1 = [None] + [(f, "X", r) for f in (0, 1) for r in (False, True)]
T625 = [{0: {"X": (a, b)}, 1: {"X": (c, d)}} for a, b, c, d in itertools.product(OPTS1, repeat=4)]

L = lambda g, b, r=False: (g, b, r)  # noqa: E731
BASES = [
    # 2 faces x 2 axes: side by side along X, periodic in X
    {0: {"X": (L(1, "X"), L(1, "X")), "Y": (None, None)}, 1: {"X": (L(0, "X"), L(0, "X")), "Y": (None, None)}},
    # rotated junction: right of face 0 X meets left of face 1 Y
    {0: {"X": (None, L(1, "Y")), "Y": (None, None)}, 1: {"X": (None, None), "Y": (L(0, "X"), None)}},
    # reversed same-axis link (right meets right) and a reversed swapped link (left X meets left Y)
    {0: {"X": (L(1, "Y", True), L(1, "X", True)), "Y": (None, None)}, 1: {"X": (None, L(0, "X", True)), "Y": (L(0, "X", True), None)}},
    # fully periodic single axis pair with self links in Y
    {0: {"X": (L(1, "X"), L(1, "X")), "Y": (L(0, "Y"), L(0, "Y"))}, 1: {"X": (L(0, "X"), L(0, "X")), "Y": (L(1, "Y"), L(1, "Y"))}},
    # 3 faces in a row along X, open ends, middle face rotated (links through Y)
    {0: {"X": (None, L(1, "Y")), "Y": (None, None)}, 1: {"X": (None, None), "Y": (L(0, "X"), L(2, "X"))}, 2: {"X": (L(1, "Y"), None), "Y": (None, None)}},
    # 3 faces in a ring along X
    {0: {"X": (L(2, "X"), L(1, "X"))}, 1: {"X": (L(0, "X"), L(2, "X"))}, 2: {"X": (L(1, "X"), L(0, "X"))}},
    # 3 faces, cube-corner like: 0-1 along X, 1-2 along Y, 2-0 swapped
    {0: {"X": (None, L(1, "X")), "Y": (None, L(2, "X"))}, 1: {"X": (L(0, "X"), None), "Y": (None, L(2, "Y"))},
     2: {"X": (L(0, "Y"), None), "Y": (L(1, "Y"), None)}},
]
VALUES = [None] + [(g, b, r) for g in (0, 1, 2, 7) for b in ("X", "Y", "Q") for r in (False, True)]


def slots(t):
    return [(f, a, s) for f in sorted(t) for a in sorted(t[f]) for s in (0, 1)]


def apply_edits(t, edits):
    t2 = {f: {a: list(v) for a, v in d.items()} for f, d in t.items()}
    for (f, a, s), v in edits:
        t2[f][a][s] = v
    return {f: {a: tuple(v) for a, v in d.items()} for f, d in t2.items()}


SINGLES = []
for bi, base in enumerate(BASES):
    for sl in slots(base):
        for v in VALUES:
            if v != base[sl[0]][sl[1]][sl[2]]:
                SINGLES.append((bi, [(sl, v)]))
    # "other side": swap the two slots of one (face, axis)
    for f in base:
        for a in base[f]:
            l, r = base[f][a]
            if l != r:
                SINGLES.append((bi, [((f, a, 0), r), ((f, a, 1), l)]))
N_DOUBLES = [len(slots(b)) * (len(slots(b)) - 1) // 2 * (len(VALUES) - 1) ** 2 for b in BASES]
N_RANDOM = {"quick": 600, "thorough": 60000}
N_DOUBLE_SAMPLE = 2500
BUDGET = {
    "quick": len(T625) + len(SINGLES) + N_DOUBLE_SAMPLE + N_RANDOM["quick"] + 60,
    "thorough": len(T625) + len(SINGLES) + sum(N_DOUBLES) + N_RANDOM["thorough"] + 400,
}
MIN_EVALS = {"quick": 3000, "thorough": 60000}


def nth_double(n):
    for bi, base in enumerate(BASES):
        if n < N_DOUBLES[bi]:
            sl = slots(base)
            nv = len(VALUES) - 1
            pair, rest = divmod(n, nv * nv)
            i1, i2 = list(itertools.combinations(range(len(sl)), 2))[pair]
            v1i, v2i = divmod(rest, nv)
            v1 = [v for v in VALUES if v != base[sl[i1][0]][sl[i1][1]][sl[i1][2]]][v1i]
            v2 = [v for v in VALUES if v != base[sl[i2][0]][sl[i2][1]][sl[i2][2]]][v2i]
            return bi, [(sl[i1], v1), (sl[i2], v2)]
        n -= N_DOUBLES[bi]
    raise IndexError


def gen_case(rng, i, tier):
    if i < len(T625):
        return {"family": "2faces-1axis", "table": T625[i], "nfaces": 2, "axes": ["X"]}
    i -= len(T625)
    if i < len(SINGLES):
        bi, edits = SINGLES[i]
        return {"family": "single-edit", "base": bi, "table": apply_edits(BASES[bi], edits), "nfaces": len(BASES[bi]), "axes": ["X", "Y"]}
    i -= len(SINGLES)
    nd = sum(N_DOUBLES) if tier == "thorough" else N_DOUBLE_SAMPLE
    if i < nd:
        n = i if tier == "thorough" else rng.randrange(sum(N_DOUBLES))
        bi, edits = nth_double(n)
        return {"family": "double-edit", "base": bi, "table": apply_edits(BASES[bi], edits), "nfaces": len(BASES[bi]), "axes": ["X", "Y"]}
    i -= nd
    if i < N_RANDOM[tier]:
        nf = rng.randint(1, 6)
        t = linktable.random_reciprocal(rng, nf, p_link=rng.choice([0.6, 0.85, 0.97]))
        # random face labels permutation keeps reciprocity; insertion order of faces shuffled
        items = list(t.items())
        rng.shuffle(items)
        return {"family": "random-reciprocal", "table": dict(items), "nfaces": nf, "axes": ["X", "Y"]}
    kind = rng.choice(["two-face-dims", "two-face-dims-one-absent", "two-face-dims-absent-first", "facedim-absent", "facedim-absent-consistent",
                       "relabelled-face", "relabelled-face", "facedim-is-a-variable", "facedim-is-a-variable",
                       "renamed-axis", "renamed-axis", "axis-the-grid-lacks"])
    nf = rng.randint(2, 4)
    t = linktable.random_reciprocal(rng, nf, p_link=0.9)
    if kind == "relabelled-face":
        # a table that is reciprocal in itself but whose faces are not (all) faces of the dataset: one face consistently
        # renumbered (as key and as link target) to a number the face dimension does not have
        old = rng.randrange(nf)
        new = rng.choice([-1, -1, -2, nf, nf + 3])
        ren = lambda f: new if f == old else f  # noqa: E731
        t = {ren(f): {a: [None if l is None else [ren(l[0]), l[1], l[2]] for l in lr] for a, lr in d.items()} for f, d in t.items()}
        if not any(l is not None and (l[0] == new) for d in t.values() for lr in d.values() for l in lr) and not any(
                l is not None for lr in t.get(new, {}).values() for l in lr):
            kind = "relabelled-face-unlinked"
    if kind in ("renamed-axis", "axis-the-grid-lacks"):
        # a table that is reciprocal in itself but one of whose axes is not an axis of the Grid: consistently renamed (as
        # key and as link target) to a name the Grid does not know, or a two-axis table handed to a Grid with one axis
        old = rng.choice(["X", "Y"])
        new = rng.choice(["Q", "Z", "x", "XX"]) if kind == "renamed-axis" else old
        ren = lambda a: new if a == old else a  # noqa: E731
        t = {f: {ren(a): [None if l is None else [l[0], ren(l[1]), l[2]] for l in lr] for a, lr in d.items()} for f, d in t.items()}
        if not any(l is not None and (a == new or l[1] == new) for d in t.values() for a, lr in d.items() for l in lr):
            kind += "-unlinked"
        return {"family": kind, "table": t, "nfaces": nf, "axes": ["X", "Y"] if kind.startswith("renamed") else [a for a in ("X", "Y") if a != old]}
    return {"family": kind, "table": t, "nfaces": nf, "axes": ["X", "Y"]}


def to_jsonable_table(t):
    return {str(f): {a: [None if l is None else list(l) for l in lr] for a, lr in d.items()} for f, d in t.items()}


def run_case(ctx, desc):
    import xarray as xr
    from xgcm import Grid

    t = linktable.norm(desc["table"])
    nf = desc["nfaces"]
    N = 3
    coords = {"face": ("face", np.arange(nf))}
    cm = {}
    for a in desc["axes"]:
        c, l = a.lower(), a.lower() + "l"
        coords[c] = (c, np.arange(N) + 0.5)
        coords[l] = (l, np.arange(N) * 1.0)
        cm[a] = {"center": c, "left": l}
    fam = desc["family"]
    if fam == "two-face-dims":
        coords["tile"] = ("tile", np.arange(nf))
        fc = {"face": t, "tile": t}
        expect = False
    elif fam == "two-face-dims-one-absent":
        fc = {"face": t, "tile": t}  # 'tile' is not a dimension of the dataset
        expect = False
    elif fam == "two-face-dims-absent-first":
        fc = {"tile": t, "face": t}
        expect = False
    elif fam.startswith("facedim-absent"):
        fc = {"panel": t}
        expect = False
    elif fam == "facedim-is-a-variable":
        # the key names something the dataset has - a coordinate / data variable along the real face dimension holding
        # the face numbers - but not a dimension
        if (ctx.case_index or 0) % 2:
            coords["tile"] = ("face", np.arange(nf))
        else:
            coords["tile_holder"] = ("face", np.zeros(nf))
        fc = {"tile": t}
        expect = False
    elif fam in ("relabelled-face-unlinked", "renamed-axis-unlinked", "axis-the-grid-lacks-unlinked"):
        # the renumbered face carries no link at all: whether an entry without links for a non-existent face is an
        # error is not stated; not judged
        ctx.count("relabelled_face_without_links_not_judged")
        return
    else:
        fc = {"face": t}
        expect = linktable.reciprocal(t, set(range(nf)), set(desc["axes"]))
    # the same table written with lists instead of tuples (as it comes out of a JSON / YAML file) is the same table
    spelling = ["tuples", "list-links", "list-pairs", "lists"][(ctx.case_index or 0) % 4]
    if spelling != "tuples":
        def respell(tab):
            return {f: {a: (list if spelling != "list-links" else tuple)(
                (list(lk) if (lk is not None and spelling != "list-pairs") else lk) for lk in lr) for a, lr in d.items()} for f, d in tab.items()}

        fc = {k: respell(v) for k, v in fc.items()}
    # ... and so is a table whose reverse flags are 1 / 0 or NumPy booleans instead of True / False
    flags = ["bool", "int", "numpy"][((ctx.case_index or 0) // 4) % 3]
    if flags != "bool":
        conv = (lambda v: int(v)) if flags == "int" else (lambda v: np.bool_(v))
        fc = {k: {f: {a: type(lr)(lk if lk is None else type(lk)([lk[0], lk[1], conv(lk[2])]) for lk in lr) for a, lr in d.items()}
                  for f, d in v.items()} for k, v in fc.items()}
    ds = xr.Dataset(coords=coords)
    if fam == "facedim-is-a-variable" and "tile" not in ds.coords:
        ds["tile"] = ("face", np.arange(nf))  # ... as a data variable
    try:
        Grid(ds, coords=cm, face_connections=fc, periodic=False, autoparse_metadata=False)
        accepted, err = True, None
    except Exception as e:
        accepted, err = False, e
    links = [lk for d in t.values() for lr in d.values() for lk in lr if lk is not None]
    kinds = sorted({("self" if False else "x", lk[1], lk[2]) for lk in links})
    ckey = (fam, len(links), kinds, expect, spelling, flags)
    ctx.judged(ckey, len(links) > 0)
    ctx.count("accepted" if accepted else "refused")
    ctx.count("model_accepts" if expect else "model_refuses")
    if not accepted:
        ctx.note("refusal_exception_types", type(err).__name__)
    if ctx.evaluations % 400 == 1:
        ctx.sample({"family": fam, "table": to_jsonable_table(t), "model": expect, "accepted": accepted})
    if accepted != expect:
        ctx.violation(
            "accept-iff-reciprocal",
            f"{fam} (written with {spelling}, {flags} flags): Grid {'accepted' if accepted else 'refused (' + type(err).__name__ + ': ' + str(err)[:120] + ')'} "
            f"a table the predicate {'accepts' if expect else 'rejects'}: {to_jsonable_table(t)}",
            desc=dict(desc, table=to_jsonable_table(t)),
        )
