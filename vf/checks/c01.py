"""C01 - staggered stencil operators are exact on simple grids."""
import numpy as np

from .. import gen
from ..models import resolve, stencil

ID = "C01"
NEEDS_SHIM = False
BUDGET = {"quick": 2400, "thorough": 300000}
MIN_EVALS = {"quick": 1500, "thorough": 30000}
RULE = (
    "seeded random cases: grid layout (1-3 axes, any subset of the 5 positions containing center, 2-7 cells, "
    "random dimension names) x constructor spellings of periodic/boundary/fill_value/default_shifts x one call of "
    "diff/interp/min/max over 1-3 axes in random order with per-call boundary/fill_value spellings (None, scalar, "
    "total or partial mapping), `to` given or omitted, 0-2 extra dims and unoperated grid dims in shuffled order; "
    "exact-safe quarter-integer data (bit-exact comparison) or hostile floats (8-ulp), float64 / float32 / int64, C / F / strided / read-only memory, one case in eight dask-backed with random chunks (also along operated dimensions). Oracle: geometric two-point "
    "stencil model + rule resolution model + hand-written padding. Verdicts: values, dims/order, shape, chained "
    "single-axis equivalence, default shift. A case class is (op, per-axis (from,to,rule,rule source), #extra dims, "
    "data kind); non-trivial iff some shift reads a boundary value or several axes are named."
)
REQUIRED_REACH = [
    "xgcm.grid.Grid._1d_grid_ufunc_dispatch",
    "xgcm.grid.Grid._transpose_to_keep_same_dim_order",
    "xgcm.grid._select_grid_ufunc",
    "xgcm.grid_ufunc.apply_as_grid_ufunc",
    "xgcm.padding._pad_basic",
    "xgcm.gridops.pairwise_forward_min",
    "xgcm.gridops.diff_forward",
]
FILLS = [0, -3.25, 7, 2.5]


def gen_ctor(rng, axn, layout=None, p_none=0.4, partial_list=False):
    """Constructor spellings.  A `periodic` list that leaves some axis unnamed is drawn only by C02 (which owns
    that part of the resolution statement and lists the open finding about it); elsewhere lists name every axis."""
    r = rng.random()
    if r < 0.25:
        periodic = True
    elif r < 0.5:
        periodic = False
    elif r < 0.75:
        periodic = {a: rng.random() < 0.5 for a in axn}
    elif partial_list:
        periodic = rng.sample(axn, rng.randint(0, len(axn)))
    else:
        periodic = rng.sample(axn, len(axn))
    ctor = {
        "periodic": periodic,
        "boundary": gen.random_spelling(rng, axn, gen.RULES, p_none=p_none),
        "fill_value": gen.random_spelling(rng, axn, FILLS, p_none=p_none),
    }
    return ctor


def gen_case(rng, i, tier):
    layout = gen.random_layout(rng, nmin=2, nmax=(13 if rng.random() < 0.15 else 7) if rng.random() < 0.3 else 5)
    axes = layout["axes"]
    axn = [a["name"] for a in axes]
    ctor = gen_ctor(rng, axn)
    ds_shifts = {}
    for a in axes:
        others = [p for p, _ in a["pos"] if p != "center"]
        if len(others) >= 2 and rng.random() < 0.25:
            ds_shifts[a["name"]] = {"center": rng.choice(others)}
    if ds_shifts:
        ctor["default_shifts"] = ds_shifts
    k = rng.randint(1, len(axn))
    opax = rng.sample(axn, k)
    cm = gen.layout_coords(layout)
    pos = {a: rng.choice(list(cm[a])) for a in axn}
    use_default = rng.random() < 0.3
    to = {}
    for a in opax:
        if pos[a] == "center":
            to[a] = rng.choice([p for p in cm[a] if p != "center"])
        else:
            to[a] = "center"
    dims = [cm[a][pos[a]] for a in axn if a in opax or rng.random() < 0.6]
    extra = {}
    for e in rng.sample(gen.EXTRA_DIM_POOL, rng.choice([0, 0, 1, 1, 2])):
        extra[e] = rng.randint(1, 3)
        dims.append(e)
    rng.shuffle(dims)
    call = {"op": rng.choice(["diff", "interp", "min", "max"])}
    call["axis"] = opax if (len(opax) > 1 or rng.random() < 0.5) else opax[0]
    if rng.random() < 0.2 and isinstance(call["axis"], list):
        call["axis_tuple"] = True
    if not use_default:
        if len(set(to.values())) == 1 and rng.random() < 0.4:
            call["to"] = to[opax[0]]
        else:
            call["to"] = dict(to)
            if rng.random() < 0.25:
                # a mapping may also name axes this call does not operate on
                for a in axn:
                    if a not in call["to"]:
                        call["to"][a] = rng.choice(list(cm[a]))
    if isinstance(call.get("to"), dict) and rng.random() < 0.2:
        # an entry may be None: "not specified" for that axis, so its default shift applies
        for a in opax:
            shifts = (ctor.get("default_shifts") or {}).get(a)
            if rng.random() < 0.5 and stencil.default_to(pos[a], list(cm[a]), shifts) == to[a]:
                call["to"][a] = None
    if rng.random() < 0.3:
        call["keep_coords"] = rng.random() < 0.5
    if rng.random() < 0.2:
        # numeric fill values of NumPy types (all drawn fills are exact in single precision)
        call["np_fill"] = rng.choice(["float32", "int64", "0d", "float64"])
    b = gen.random_spelling(rng, axn, gen.RULES, p_none=0.35)
    f = gen.random_spelling(rng, axn, FILLS, p_none=0.35)
    if b is not None:
        call["boundary"] = b
    if f is not None:
        call["fill_value"] = f
    data = {"kind": "hostile" if rng.random() < 0.12 else "quarter", "seed": rng.getrandbits(31),
            "dtype": rng.choice(["float64"] * 10 + ["float32", "int64"]),
            "memory": rng.choice(["C"] * 6 + ["F", "strided", "readonly"])}
    if data["dtype"] == "int64" and data["kind"] == "quarter":
        # integer-typed data only with integer-valued fills: numpy pads an integer array with the fill value cast to
        # its dtype, and what a fractional fill should mean for such an array is not part of the statement
        def intfill(v):
            return {k: intfill(x) for k, x in v.items()} if isinstance(v, dict) else (v if v is None or float(v).is_integer() else 5)

        ctor["fill_value"] = intfill(ctor.get("fill_value"))
        if "fill_value" in call:
            call["fill_value"] = intfill(call["fill_value"])
    if rng.random() < (0.5 if data["dtype"] == "int64" else 0.12):
        # dask-backed input, chunked along any dimension (an operated one too, unless its shift involves inner / outer,
        # which is refused for chunked data): what the operators return is the same array of numbers
        data["lazy"] = rng.getrandbits(31)
        if data["dtype"] == "int64" and isinstance(call["axis"], list) and len(call["axis"]) > 1 and data["lazy"] % 2:
            # integer-typed lazy data through several axes: the mean formed along the first axis is not an integer, and is
            # the input of the second step (found by the thorough tier, repaired in /repo)
            call["op"] = "interp"
    return {
        "layout": layout,
        "ctor": ctor,
        "pos": pos,
        "dims": dims,
        "extra": extra,
        "data": data,
        "call": call,
        "name": rng.choice(["v", "temp", None]),
    }


def make_grid(desc, **kw):
    from xgcm import Grid

    ds = gen.build_ds(desc["layout"], extra=desc.get("extra"))
    ctor = {k: v for k, v in desc["ctor"].items() if v is not None or k == "periodic"}
    g = Grid(ds, coords=gen.layout_coords(desc["layout"]), autoparse_metadata=False, **ctor, **kw)
    return ds, g


def make_da(desc, ds, allow_lazy=False):
    import xarray as xr

    shape = [ds.sizes[d] for d in desc["dims"]]
    data = gen.make_data(desc["data"]["kind"], desc["data"]["seed"], shape)
    if desc["data"].get("dtype") == "float32" and desc["data"]["kind"] == "quarter":
        data = data.astype("float32")  # quarter-integers and all their sums/halves are exact in float32 too
    if desc["data"].get("dtype") == "int64" and desc["data"]["kind"] == "quarter":
        data = np.round(data).astype("int64")  # integer-typed data (counts, indices)
    layout = desc["data"].get("memory", "C")
    if layout == "F":
        data = np.asfortranarray(data)
    elif layout == "strided" and data.ndim:
        big = np.repeat(data, 2, axis=-1)
        big[..., 1::2] = -999.0  # poison between the real values: a stride mistake would read it
        data = big[..., ::2]
    elif layout == "readonly":
        data = data.copy()
        data.setflags(write=False)  # operations never need to write into their input
    da = xr.DataArray(data, dims=desc["dims"], name=desc.get("name"))
    if allow_lazy and desc["data"].get("lazy") is not None:
        import random

        r = random.Random(desc["data"]["lazy"])
        cm = gen.layout_coords(desc["layout"])
        opax, to_eff = effective_to(desc)
        keep = {cm[a][desc["pos"][a]] for a in opax if {desc["pos"][a], to_eff[a]} & {"inner", "outer"}}
        chunks = {d: (gen.random_composition(r, da.sizes[d]) if (d not in keep and r.random() < 0.7) else (da.sizes[d],)) for d in da.dims}
        da = da.chunk(chunks)
    return da


def close(a, b, kind):
    if kind != "hostile":
        return np.array_equal(a, b)
    a = np.asarray(a, float)
    b = np.asarray(b, float)
    if a.shape != b.shape:
        return False
    with np.errstate(all="ignore"):
        fin = np.isfinite(a) & np.isfinite(b)
        if not np.array_equal(a[~fin], b[~fin], equal_nan=True):
            return False
        tol = 8 * np.finfo(float).eps * np.maximum(np.abs(a[fin]), np.abs(b[fin])) + 1e-320
        return bool(np.all(np.abs(a[fin] - b[fin]) <= tol))


def expected(desc, da_vals, dims, opax, to_eff, op):
    """Model result: sequential application in the given axis order."""
    cm = gen.layout_coords(desc["layout"])
    ns = {a["name"]: a["n"] for a in desc["layout"]["axes"]}
    cur = da_vals
    cur_dims = list(dims)
    with np.errstate(all="ignore"):
        for a in opax:
            d = cm[a][desc["pos"][a]]
            nd = cm[a][to_eff[a]]
            rule, fv = resolve.in_force(a, desc["ctor"], desc["call"])
            k = cur_dims.index(d)
            moved = np.moveaxis(cur, k, -1)
            res = stencil.op_last_axis(moved, op, desc["pos"][a], to_eff[a], ns[a], rule, fv)
            cur = np.moveaxis(res, -1, k)
            cur_dims[k] = nd
    return cur, cur_dims


def effective_to(desc):
    cm = gen.layout_coords(desc["layout"])
    call = desc["call"]
    opax = call["axis"] if isinstance(call["axis"], list) else [call["axis"]]
    to = call.get("to")
    out = {}
    for a in opax:
        t = to.get(a) if isinstance(to, dict) else to
        if t is None:
            shifts = (desc["ctor"].get("default_shifts") or {}).get(a)
            t = stencil.default_to(desc["pos"][a], list(cm[a]), shifts)
        out[a] = t
    return opax, out


def np_spelled(v, how):
    """The same number handed over as a NumPy scalar / 0-d array (as it comes out of `da.values.max()` or a config array)."""
    if v is None or how is None:
        return v
    if isinstance(v, dict):
        return {k: np_spelled(x, how) for k, x in v.items()}
    if how == "float32":
        return np.float32(v)
    if how == "int64":
        return np.int64(v) if float(v).is_integer() else np.float64(v)
    if how == "0d":
        return np.array(v)
    return np.float64(v)


def call_kwargs(call):
    kw = {k: call[k] for k in ("to", "boundary", "fill_value", "keep_coords") if k in call}
    if "fill_value" in kw and call.get("np_fill"):
        kw["fill_value"] = np_spelled(kw["fill_value"], call["np_fill"])
    return kw


def run_case(ctx, desc):
    call = desc["call"]
    op = call["op"]
    kind = desc["data"]["kind"]
    try:
        ds, g = make_grid(desc)
    except Exception as e:
        ctx.judged(("ctor-raise",), True)
        ctx.violation("grid-constructor-accepts", f"Grid(...) raised {type(e).__name__}: {e}", mechanism=None)
        return
    da = make_da(desc, ds, allow_lazy=True)
    opax, to_eff = effective_to(desc)
    rules = {a: resolve.in_force(a, desc["ctor"], call) for a in opax}
    src = {}
    for a in opax:
        cb = call.get("boundary")
        gb = desc["ctor"].get("boundary")
        if cb is not None and (not isinstance(cb, dict) or a in cb):
            src[a] = "call"
        elif gb is not None and (not isinstance(gb, dict) or a in gb):
            src[a] = "grid"
        else:
            src[a] = "periodic-default"
    nontrivial = len(opax) > 1 or any(stencil.depends_on_boundary(desc["pos"][a], to_eff[a]) for a in opax)
    ckey = (
        op,
        [(desc["pos"][a], to_eff[a], rules[a][0], src[a]) for a in opax],
        len(desc["extra"]),
        kind,
        "default-to" if "to" not in call else "to",
    ) + (("lazy",) if desc["data"].get("lazy") is not None else ())
    axis_arg = tuple(call["axis"]) if call.get("axis_tuple") else call["axis"]
    try:
        r = getattr(g, op)(da, axis_arg, **call_kwargs(call))
    except Exception as e:
        ctx.judged(ckey, nontrivial)
        ctx.violation("well-posed-call-returns", f"{op} raised {type(e).__name__}: {str(e)[:300]}")
        return
    exp, exp_dims = expected(desc, da.values.astype(float), da.dims, opax, to_eff, op)
    ctx.judged(ckey, nontrivial)
    if ctx.evaluations % 50 == 1:
        ctx.sample({"case": desc, "expected_dims": exp_dims, "expected_first_values": np.ravel(exp)[:4]})
    if tuple(r.dims) != tuple(exp_dims):
        ctx.violation("dims-order", f"result dims {r.dims}, expected {tuple(exp_dims)}")
        return
    if r.shape != exp.shape:
        ctx.violation("shape", f"result shape {r.shape}, expected {exp.shape}")
        return
    ok = close(np.asarray(r.values, float), exp, kind)
    if not ok and kind == "hostile" and op == "interp":
        # the mean of two huge values is representable although their sum is not: (l + r) / 2 overflows to inf where
        # l / 2 + r / 2 gives the mean itself.  The statement asks for the mean, so a result that follows either
        # formulation throughout is accepted (found by the benign-change trial, DESIGN L20)
        ok = close(np.asarray(r.values, float), expected(desc, da.values.astype(float), da.dims, opax, to_eff, "interp_halves")[0], kind)
    if not ok:
        bad = np.argwhere(~np.isclose(r.values, exp, rtol=0, atol=0, equal_nan=True))
        w = tuple(bad[0]) if len(bad) else ()
        ctx.violation(
            "stencil-values",
            f"{op} {[(a, desc['pos'][a], to_eff[a], rules[a]) for a in opax]}: at {w} got "
            f"{r.values[w] if len(bad) else '?'} expected {exp[w] if len(bad) else '?'}",
        )
        return
    # several axes == one after another in the given order (observed on the real code)
    if len(opax) > 1:
        ctx.judged(("chain",) + tuple(ckey), True)
        try:
            cur = da
            for a in opax:
                kw = call_kwargs(call)
                if "to" in kw and isinstance(kw["to"], dict):
                    kw["to"] = kw["to"][a]
                cur = getattr(g, op)(cur, a, **kw)
            if tuple(cur.dims) != tuple(r.dims) or not close(cur.values, r.values, kind):
                ctx.violation("multi-axis-equals-chained", f"{op} over {opax} differs from chained single-axis calls")
        except Exception as e:
            ctx.violation("multi-axis-equals-chained", f"chained call raised {type(e).__name__}: {str(e)[:200]}")
    ctx.count("calls_judged")
