"""C13 - axis, dimension and variable names are opaque labels."""
import hashlib
import json
import random
import string
import warnings

import numpy as np

from .. import gen
from ..models import conventions as conv

ID = "C13"
NEEDS_SHIM = True
BUDGET = {"quick": 700, "thorough": 25000}
MIN_EVALS = {"quick": 4000, "thorough": 120000}
ASSUMPTIONS = ["transform scenarios run on the pure-Python numba stand-in /verif/vf/shim/numba"]
RULE = (
    "metamorphic differential: a scenario is a fixed call sequence written in terms of ROLES (axis #k, the dimension of "
    "axis k at position p, extra dimension #j, variable #m, dummy name #d, target dimension, target_data name); it is "
    "instantiated once under ordinary names and once under an injective renaming drawn from hostile identifiers of length "
    "1-12 (every single ASCII letter, names containing or contained in center/left/right/inner/outer, prefixes and "
    "substrings of each other, case variants, the library's temporary names temp_unique / temp_dim_target / remapped / "
    "<dim>dummy), and every call's record (return or exception class of refusal, dims mapped back to roles in order, "
    "shape, sha256 of values) must be identical. Scenarios: explicit Grid + diff/interp/min/max/cumsum/derivative/"
    "integrate/average/cumint/get_metric/metric_weighted with axes passed as plain string, list and tuple; COMODO and "
    "SGRID autoparsing + operations; grid ufuncs with dummy names in signature and boundary_width; transform linear / "
    "conservative with target_dim and target_data names; padding/diff across axis-swapping face links with extra "
    "dimensions. C12-sensitive observables (set-ordered choices, corner cells of face-connected grids) are not part of the records; corner cells of a simple grid padded along two axes with different fill values are. Class = "
    "(scenario, categories of hostile names used); one verdict per compared call."
)
REQUIRED_REACH = ["xgcm.grid_ufunc._GridUFuncSignature.equivalent", "xgcm.grid.Grid.get_metric", "xgcm.sgrid.get_axis_positions_and_coords",
                  "xgcm.transform.transform", "xgcm.padding._maybe_swap_dimension_names", "xgcm.grid._select_grid_ufunc"]

POSW = gen.POSITIONS
LETTERS = list(string.ascii_lowercase + string.ascii_uppercase)
POSITIONISH = ["cent", "centerline", "xcenter", "center_", "le", "lef", "leftmost", "aleft", "righ", "upright", "right1", "inn",
               "inner_x", "winner", "out", "oute", "outerspace", "router", "enter", "ter", "ft", "ght", "nn", "er"]
CHAINS = ["x", "xc", "xcg", "xg", "xx", "xxy", "x_", "_x", "X", "Xc", "xC", "XC", "y", "yc", "ycg", "z", "zz", "a", "ab", "abc", "b", "bc"]
TEMPS = ["temp_unique", "temp_dim_target", "remapped", "dummy", "xdummy", "ydummy", "TRANSFORMED_DIMENSION", "face", "padding", "axis"]
LONG = ["a2345678901b", "Zonal_Index_1", "__private__x", "q_" * 6]
# names that are keyword arguments of the xarray / numpy / dask calls the library makes, and identifiers beyond ASCII
KEYWORDS = ["mode", "constant_values", "pad_width", "dim", "dims", "data", "name", "attrs", "coords", "variable", "kwargs", "keep_attrs",
            "stat_length", "end_values", "reflect_type", "axis", "dtype", "out", "depth", "boundary", "chunks", "meta", "func", "indexers",
            "missing_dims", "new_name_or_name_dict"]
# (not "self" and not "drop": xarray's own methods - squeeze, isel - cannot handle dimensions of these names)
UNICODE = ["σ", "λ", "θ1", "x_ρ", "ñ", "Δx", "éta", "ξ", "η_ρ"]
CATS = {"letter": LETTERS, "positionish": POSITIONISH, "chain": CHAINS, "temp": TEMPS, "long": LONG, "keyword": KEYWORDS, "unicode": UNICODE}


XARRAY_SQUEEZE_CANNOT = {"indexers", "missing_dims"}  # xarray's own squeeze() fails on dimensions of these names (face padding squeezes)


def hostile_naming(rng, roles, weights=None, avoid=()):
    """injective map role -> hostile identifier (never one of the five position words)."""
    used, out, cats = set(), {}, set()
    for r in roles:
        while True:
            cat = rng.choice(["letter", "letter", "positionish", "positionish", "chain", "chain", "temp", "long", "keyword", "keyword", "unicode"])
            nm = rng.choice(CATS[cat])
            if nm not in used and nm not in POSW and nm not in avoid:
                used.add(nm)
                out[r] = nm
                cats.add(cat)
                break
    # <dim>dummy collisions need a dimension name to exist first: sometimes derive one
    dims = [r for r in roles if r.startswith("E")]
    other = [r for r in roles if r.startswith("dim:")]
    if dims and other and rng.random() < 0.3:
        cand = out[rng.choice(other)] + "dummy"
        if cand not in used:
            used.discard(out[dims[0]])
            out[dims[0]] = cand
            cats.add("temp")
    return out, sorted(cats)


def base_naming(roles):
    out = {}
    for r in roles:
        if r.startswith("A"):
            out[r] = "XYZ"[int(r[1:])]
        elif r.startswith("dim:"):
            _, a, p = r.split(":")
            out[r] = "XYZ"[int(a[1:])] + {"center": "C", "left": "G", "right": "R", "inner": "I", "outer": "O"}[p]
        elif r.startswith("E"):
            out[r] = ["time", "member"][int(r[1:])]
        elif r.startswith("M"):
            out[r] = "metric" + r[1:]
        elif r.startswith("D"):
            out[r] = "PQ"[int(r[1:])]
        else:
            out[r] = {"TD": "levels", "TN": "dens", "V0": "data", "F": "face"}[r]
    return out


def gen_case(rng, i, tier):
    kind = ["ops", "ops", "metrics", "comodo", "sgrid", "ufunc", "transform", "faces"][i % 8]
    nax = rng.randint(1, 3) if kind in ("ops", "metrics", "comodo") else (2 if kind in ("ufunc", "faces") else 1)
    if kind == "sgrid":
        nax = rng.randint(1, 3)
    pos = {}
    for k in range(nax):
        if kind == "sgrid":
            pos[f"A{k}"] = ["center", rng.choice(POSW[1:])]
        elif kind == "faces":
            pos[f"A{k}"] = ["center", "left"]
        elif kind == "transform":
            pos[f"A{k}"] = ["center", "outer"] + rng.sample(["left", "right"], rng.choice([0, 1]))
        else:
            pos[f"A{k}"] = gen.random_positions(rng, 0.5, at_least=2)
    roles = list(pos) + [f"dim:{a}:{p}" for a, ps in pos.items() for p in ps] + ["E0", "E1", "V0", "D0", "D1", "TD", "TN", "F"]
    roles += [f"M{k}" for k in range(6)]
    ren, cats = hostile_naming(rng, roles, avoid=XARRAY_SQUEEZE_CANNOT if kind == "faces" else ())
    axis_roles = [r for r in roles if r in pos]
    if len(axis_roles) >= 2 and rng.random() < 0.2:
        # axis names that differ only in case (upper / lower / mixed) are different names
        base = rng.choice(["x", "ab", "lon", "eta_rho"])
        variants = [base, base.upper(), base.capitalize(), base[:-1] + base[-1].upper()]
        variants = [v for k, v in enumerate(variants) if v not in variants[:k] and v not in ren.values()]
        if len(variants) >= len(axis_roles):
            for r, v in zip(axis_roles, rng.sample(variants, len(axis_roles))):
                ren[r] = v
            cats = sorted(set(cats) | {"case-variants"})
    if len(axis_roles) == 3 and rng.random() < 0.3:
        # a name that is two other names joined by an underscore (x, y, x_y; and the same for their centre dimensions) is
        # still a name of its own
        a0, a1, a2 = axis_roles
        for r0, r1, r2 in ((a0, a1, a2), (f"dim:{a0}:center", f"dim:{a1}:center", f"dim:{a2}:center")):
            cand = ren[r0] + "_" + ren[r1]
            if cand not in ren.values():
                ren[r2] = cand
        cats = sorted(set(cats) | {"joined-names"})
    if kind == "faces" and i % 16 < 8:
        # one axis name contained in the other (a / ax, xi / i, Zeta / Z): still two different axes - decided from the case
        # index, without a draw, so that the other cases keep their namings
        pair = [("a", "ax"), ("xi", "i"), ("Z", "Zeta"), ("lon_u", "lon"), ("x", "xc"), ("eta_rho", "eta")][(i // 16) % 6]
        if not (set(pair) & (set(ren.values()) - {ren[axis_roles[0]], ren[axis_roles[1]]})):
            ren[axis_roles[0]], ren[axis_roles[1]] = pair
            cats = sorted(set(cats) | {"contained-axis-names"})
    if kind == "ufunc" and rng.random() < 0.4:
        # dummy names live in a namespace of their own: they may be spelled like the real axes, in any order
        axs = [ren[a] for a in pos]
        rng.shuffle(axs)
        if rng.random() < 0.5:
            axs = [ren[a] for a in reversed(list(pos))]
        ren["D0"], ren["D1"] = axs[0], axs[1]
    if kind == "ufunc" and i % 32 == 5:
        # a dummy name that contains a position word (as part of a longer word) is a name like any other - in a quarter of
        # the ufunc cases, decided from the case index without a draw
        cand = ["xinner", "outer_x", "souterrain", "winners", "leftmost", "centered"][(i // 32) % 6]
        if cand not in ren.values():
            ren["D0"] = cand
            cats = sorted(set(cats) | {"dummy-contains-position-word"})
        cats = sorted(set(cats) | {"dummy=axis-name"})
    return {"kind": kind, "pos": pos, "n": {a: rng.randint(2, 4) for a in pos}, "roles": roles, "renaming": ren, "cats": cats,
            "seed": rng.getrandbits(31), "spell": rng.choice(["str", "list", "tuple"])}


# ---------------------------------------------------------------------------------------------------
def rec(f, inv):
    import xarray as xr

    def dg(r):
        if isinstance(r, xr.DataArray):
            return {"dims": [inv.get(d, d) for d in r.dims], "shape": list(r.shape),
                    "sha": hashlib.sha256(np.ascontiguousarray(np.asarray(r.values, float)).tobytes()).hexdigest()[:16]}
        if isinstance(r, (list, tuple)):
            return [dg(x) for x in r]
        if isinstance(r, dict):
            return {inv.get(k, k): dg(v) for k, v in r.items()}
        return r if isinstance(r, (int, float, bool, str)) or r is None else repr(type(r))

    try:
        with warnings.catch_warnings():
            warnings.simplefilter("ignore")
            return {"outcome": "return", "value": dg(f())}
    except Exception as e:
        return {"outcome": "raise", "type": type(e).__name__, "msg": str(e)[:160]}


def spell(ax, how):
    return ax if how == "str" else [ax] if how == "list" else (ax,)


def build(desc, nm, with_metrics=False, coords_attrs=None, periodic=False):
    """Dataset + explicit coords mapping under the naming nm."""
    import xarray as xr

    c = {}
    cmap = {}
    for a, ps in desc["pos"].items():
        cmap[nm[a]] = {}
        for p in ps:
            d = nm[f"dim:{a}:{p}"]
            c[d] = ((d,), gen.coord_values(p, desc["n"][a]))
            cmap[nm[a]][p] = d
    ds = xr.Dataset(coords=c)
    ds = ds.assign_coords({nm["E0"]: ((nm["E0"],), [0.0, 1.0])})
    return ds, cmap


def scenario(desc, nm):
    """-> list of (label, record) for the naming nm (dict role -> name)."""
    import xarray as xr
    from xgcm import Grid

    inv = {v: k for k, v in nm.items() if k.startswith("D")}
    inv.update({v: k for k, v in nm.items() if not k.startswith("D")})
    kind = desc["kind"]
    r = np.random.default_rng(desc["seed"])
    out = []
    A = list(desc["pos"])
    how = desc["spell"]
    if kind in ("ops", "metrics", "comodo", "sgrid"):
        ds, cmap = build(desc, nm)
        mets = {}
        if kind == "metrics":
            k = 0
            for a in A:
                names = []
                for p in desc["pos"][a]:
                    d = nm[f"dim:{a}:{p}"]
                    mn = nm[f"M{k % 6}"] + (str(k // 6) if k >= 6 else "")
                    k += 1
                    ds[mn] = ((d,), r.integers(1, 9, size=ds.sizes[d]).astype(float))
                    names.append(mn)
                mets[(nm[a],)] = names
        if kind == "comodo":
            spec = {nm[a]: {"n": desc["n"][a], "pos": {p: nm[f"dim:{a}:{p}"] for p in desc["pos"][a]}} for a in A}
            ds2 = conv.comodo_dataset(spec, random.Random(desc["seed"]))
            ds = ds2.assign_coords({nm["E0"]: ((nm["E0"],), [0.0, 1.0])})
            make = lambda: Grid(ds, periodic=False)  # noqa: E731
        elif kind == "sgrid":
            sk = {1: "1d", 2: "2d", 3: rng_choice(desc["seed"], ["2dv", "3d"])}[len(A)]
            spec = {"XYZ"[k]: {"n": desc["n"][a], "pos": {p: nm[f"dim:{a}:{p}"] for p in desc["pos"][a]}} for k, a in enumerate(A)}
            ds = conv.sgrid_dataset(spec, sk, random.Random(desc["seed"]))
            ds = ds.assign_coords({nm["E0"]: ((nm["E0"],), [0.0, 1.0])})
            make = lambda: Grid(ds, periodic=False)  # noqa: E731
        else:
            make = lambda: Grid(ds, coords=cmap, periodic=False, metrics=mets or None, autoparse_metadata=False)  # noqa: E731
        box = {}

        def mk():
            box["g"] = make()
            # the order of the axes, in terms of roles, is part of the record: it must not depend on the names
            return [inv.get(a, a) for a in box["g"].axes] if kind != "sgrid" else len(box["g"].axes)

        out.append(("grid", rec(mk, inv)))
        g = box.get("g")
        if g is None:
            return out
        axname = (lambda a: nm[a]) if kind != "sgrid" else (lambda a: "XYZ"[A.index(a)])
        dims = [nm[f"dim:{a}:center"] for a in A] + [nm["E0"]]
        order = list(r.permutation(len(dims)))
        dims = [dims[k] for k in order]
        da = xr.DataArray(gen.quarter_data(desc["seed"], [ds.sizes[d] for d in dims]), dims=dims, name=nm["V0"])
        for a in A:
            for p in desc["pos"][a]:
                if p == "center":
                    continue
                for op in ("diff", "interp", "max", "cumsum"):
                    out.append((f"{op}:{a}:{p}", rec(lambda: getattr(g, op)(da, spell(axname(a), how), to=p, boundary="extend"), inv)))
        if len(A) > 1:
            tos = {axname(a): [p for p in desc["pos"][a] if p != "center"][0] for a in A}
            out.append(("diff:multi", rec(lambda: g.diff(da, [axname(a) for a in A], to=tos, boundary={axname(a): "fill" for a in A}, fill_value={axname(A[0]): 2.0}), inv)))
            out.append(("min:default-to", rec(lambda: g.min(da, tuple(axname(a) for a in A), boundary="periodic"), inv)))
        if kind in ("comodo", "ops") and len(A) == 3:
            # two different partitions of the three axes are registered, with different products: which one is
            # multiplied must not depend on the names (alphabetical order, length, hash)
            d = {a: nm[f"dim:{a}:center"] for a in A}
            r2 = np.random.default_rng(desc["seed"] + 5)
            names = {}
            for key in ((0, 1), (2,), (0,), (1, 2)):
                mn = nm[f"M{len(names)}"]
                dims = [d[A[k]] for k in key]
                ds[mn] = (dims, r2.integers(1, 9, size=[ds.sizes[x] for x in dims]).astype(float))
                names[key] = mn

            def reg_and_integrate():
                for key, mn in names.items():
                    g.set_metrics(tuple(axname(A[k]) for k in key), mn)
                return {"integrate": g.integrate(da, [axname(a) for a in A]), "metric": g.get_metric(da, [axname(a) for a in reversed(A)])}

            out.append(("partition-choice", rec(reg_and_integrate, inv)))
        if kind == "metrics":
            a = A[0]
            p = [q for q in desc["pos"][a] if q != "center"][0]
            out.append(("derivative", rec(lambda: g.derivative(da, spell(nm[a], how), to=p, boundary="extend"), inv)))
            out.append(("integrate", rec(lambda: g.integrate(da, spell(nm[a], how)), inv)))
            out.append(("integrate:all", rec(lambda: g.integrate(da, [nm[x] for x in A]), inv)))
            if len(A) == 3:
                # one request after another on the same Grid: the first two axes together, then the third alone, then each alone
                out.append(("integrate:first-two", rec(lambda: g.integrate(da, [nm[A[0]], nm[A[1]]]), inv)))
                out.append(("integrate:third", rec(lambda: g.integrate(da, nm[A[2]]), inv)))
                out.append(("average:second", rec(lambda: g.average(da, [nm[A[1]]]), inv)))
                out.append(("get_metric:first-two", rec(lambda: g.get_metric(da, [nm[A[0]], nm[A[1]]]), inv)))
                out.append(("get_metric:third", rec(lambda: g.get_metric(da, [nm[A[2]]]), inv)))
            out.append(("average", rec(lambda: g.average(da, spell(nm[a], how)), inv)))
            out.append(("cumint", rec(lambda: g.cumint(da, spell(nm[a], how), to=p, boundary="fill"), inv)))
            out.append(("get_metric", rec(lambda: g.get_metric(da, spell(nm[a], how)), inv)))
            out.append(("metric_weighted:str", rec(lambda: g.interp(da, nm[a], to=p, boundary="extend", metric_weighted=nm[a]), inv)))
            out.append(("metric_weighted:dict", rec(lambda: g.diff(da, nm[a], to=p, boundary="extend", metric_weighted={nm[a]: spell(nm[a], how)}), inv)))
        return out
    if kind == "ufunc":
        from xgcm import apply_as_grid_ufunc, as_grid_ufunc

        ds, cmap = build(desc, nm)
        g = Grid(ds, coords=cmap, periodic=False, autoparse_metadata=False)
        a0, a1 = A
        p0 = [q for q in desc["pos"][a0] if q != "center"][0]
        dims = [nm[f"dim:{a0}:center"], nm["E0"], nm[f"dim:{a1}:center"]]
        da = xr.DataArray(gen.quarter_data(desc["seed"], [ds.sizes[d] for d in dims]), dims=dims, name=nm["V0"])
        d0, d1 = nm["D0"], nm["D1"]
        plen = {"left": (1, 0), "right": (0, 1), "outer": (1, 1), "inner": (0, 0)}[p0]

        def f(x):
            return x[..., 1:, :] - x[..., :-1, :]

        sig = f"({d0}:center,{d1}:center)->({d0}:{p0},{d1}:center)"
        out.append(("apply", rec(lambda: apply_as_grid_ufunc(f, da, axis=[(nm[a0], nm[a1])], grid=g, signature=sig,
                                                             boundary_width={d0: plen}, boundary="extend"), inv)))
        out.append(("decorated", rec(lambda: as_grid_ufunc(signature=sig, boundary_width={d0: plen}, boundary="fill", fill_value=3.0)(f)(
            g, da, axis=[(nm[a0], nm[a1])]), inv)))
        # both axes padded under the fill rule with a fill value of their own, and a kernel that reads the corner of the
        # halo: what ends up in the corner follows from the order in which the call lists the axes, never from their names
        from xgcm.padding import pad

        sig2 = f"({d0}:center,{d1}:center)->({d0}:center,{d1}:center)"
        fills = {nm[a0]: 2.0, nm[a1]: -5.0}
        for tag, bw in (("ab", {d0: (1, 0), d1: (1, 0)}), ("ba", {d1: (0, 1), d0: (0, 1)})):
            out.append(("two-axis-corner:" + tag, rec(lambda bw=bw: apply_as_grid_ufunc(
                (lambda x: x[..., 1:, 1:] + x[..., :-1, :-1]), da, axis=[(nm[a0], nm[a1])], grid=g, signature=sig2, boundary_width=bw, boundary="fill",
                fill_value=dict(fills)), inv)))
        for tag, pw in (("ab", {nm[a0]: (1, 2), nm[a1]: (2, 1)}), ("ba", {nm[a1]: (1, 1), nm[a0]: (1, 1)})):
            out.append(("pad-corners:" + tag, rec(lambda pw=pw: pad(da, g, pw, boundary="fill", fill_value=dict(fills)).transpose(*da.dims), inv)))
        p1 = [q for q in desc["pos"][a1] if q != "center"][0]
        sig1 = f"({d0}:center)->({d0}:{p1})"
        out.append(("one-axis", rec(lambda: apply_as_grid_ufunc(lambda x: x[..., 1:] + x[..., :-1], da, axis=[(nm[a1],)], grid=g,
                                                                signature=sig1,
                                                                boundary_width={d0: {"left": (1, 0), "right": (0, 1), "outer": (1, 1), "inner": (0, 0)}[p1]},
                                                                boundary="periodic"), inv)))
        # the axis of a one-axis ufunc named by a bare string instead of a one-element tuple (inside the list, or as the whole
        # argument): whether that spelling is taken or refused, it is the same for every name
        bw1 = {d0: {"left": (1, 0), "right": (0, 1), "outer": (1, 1), "inner": (0, 0)}[p1]}
        out.append(("one-axis:axis-as-strings", rec(lambda: apply_as_grid_ufunc(lambda x: x[..., 1:] + x[..., :-1], da, axis=[nm[a1]], grid=g,
                                                                                signature=sig1, boundary_width=bw1, boundary="periodic"), inv)))
        out.append(("one-axis:axis-as-string", rec(lambda: g.apply_as_grid_ufunc(lambda x: x[..., 1:] + x[..., :-1], da, axis=nm[a1],
                                                                                 signature=sig1, boundary_width=bw1, boundary="periodic"), inv)))
        if p1 in ("left", "right"):
            # the same one-axis ufunc on lazy data chunked along the core dimension, mapped over the chunks
            lazy = da.chunk({nm[f"dim:{a1}:center"]: 1})
            out.append(("one-axis-lazy-map_overlap", rec(lambda: apply_as_grid_ufunc(
                lambda x: x[..., 1:] + x[..., :-1], lazy, axis=[(nm[a1],)], grid=g, signature=sig1,
                boundary_width={d0: {"left": (1, 0), "right": (0, 1)}[p1]}, boundary="periodic", dask="allowed", map_overlap=True).compute(scheduler="synchronous"), inv)))
        return out
    if kind == "transform":
        ds, cmap = build(desc, nm)
        g = Grid(ds, coords=cmap, periodic=False, autoparse_metadata=False)
        a = A[0]
        n = desc["n"][a]
        zc, zo = nm[f"dim:{a}:center"], nm[f"dim:{a}:outer"]
        e0, e1 = nm["E0"], nm["E1"]
        data = gen.quarter_data(desc["seed"], [2, 2, n])
        da = xr.DataArray(data, dims=[e0, e1, zc], name=nm["V0"])
        tdc = xr.DataArray(np.stack([np.arange(n) * 1.0 + 0.5, np.arange(n) * 2.0 + 1]), dims=[e0, zc], name=nm["TN"])
        tdo = xr.DataArray(np.stack([np.arange(n + 1) * 1.0, np.arange(n + 1) * 2.0]), dims=[e0, zo], name=nm["TN"])
        lv = np.array([0.75, 1.5, 2.25])
        bins = np.array([0.0, 1.0, 2.5, 8.0])
        td = nm["TD"]
        out.append(("linear:ndarray", rec(lambda: g.transform(da, nm[a], lv, target_data=tdc), inv)))
        out.append(("linear:dataarray", rec(lambda: g.transform(da, nm[a], xr.DataArray(lv, dims=[td]), target_data=tdc), inv)))
        out.append(("linear:nd-target", rec(lambda: g.transform(da, nm[a], xr.DataArray(np.stack([lv, lv + 0.25]), dims=[e0, td]), target_data=tdc, target_dim=td), inv)))
        out.append(("log", rec(lambda: g.transform(da, nm[a], xr.DataArray(lv, dims=[td]), target_data=tdc, method="log", mask_edges=False), inv)))
        out.append(("conservative:ndarray", rec(lambda: g.transform(da, nm[a], bins, target_data=tdo, method="conservative"), inv)))
        out.append(("conservative:dataarray", rec(lambda: g.transform(da, nm[a], xr.DataArray(bins, dims=[td]), target_data=tdo, method="conservative"), inv)))
        out.append(("conservative:target_dim", rec(lambda: g.transform(da, nm[a], xr.DataArray(bins, dims=[td]), target_data=tdo, target_dim=td, method="conservative"), inv)))
        out.append(("conservative:center", rec(lambda: g.transform(da, nm[a], bins, target_data=tdc, method="conservative"), inv)))
        # the data may carry a non-dimension coordinate (a label per ensemble member, say) - of whatever name
        aux = nm["D0"]
        da_aux = da.assign_coords({aux: (e1, np.array([10.0, 20.0]))})

        def with_aux(**kw):
            r = g.transform(da_aux, nm[a], **kw)
            return {"result": r, "keeps_the_coordinate": aux in r.coords}

        out.append(("linear:aux-coord", rec(lambda: with_aux(target=lv, target_data=tdc), inv)))
        out.append(("conservative:aux-coord", rec(lambda: with_aux(target=bins, target_data=tdo, method="conservative"), inv)))
        return out
    # faces: an axis-swapping junction, with extra dims
    a0, a1 = A
    N = 3
    x, xl, y, yl = nm[f"dim:{a0}:center"], nm[f"dim:{a0}:left"], nm[f"dim:{a1}:center"], nm[f"dim:{a1}:left"]
    fd = nm["F"]
    e0 = nm["E0"]
    ds = xr.Dataset(coords={x: (x, np.arange(N) + 0.5), xl: (xl, np.arange(N) * 1.0), y: (y, np.arange(N) + 0.5), yl: (yl, np.arange(N) * 1.0),
                            fd: (fd, [0, 1])})
    fc = {fd: {0: {nm[a0]: (None, (1, nm[a1], False))}, 1: {nm[a1]: ((0, nm[a0], False), None)}}}
    g = Grid(ds, coords={nm[a0]: {"center": x, "left": xl}, nm[a1]: {"center": y, "left": yl}}, face_connections=fc, periodic=False,
             autoparse_metadata=False)
    da = xr.DataArray(gen.unique_data((2, 2, N, N), 1), dims=[e0, fd, y, x], name=nm["V0"])
    u = xr.DataArray(gen.unique_data((2, 2, N, N), 1), dims=[e0, fd, y, xl])
    v = xr.DataArray(gen.unique_data((2, 2, N, N), 501), dims=[e0, fd, yl, x])
    out.append(("diff:a1", rec(lambda: g.diff(da, nm[a1], boundary="fill").transpose(e0, fd, ...), inv)))
    out.append(("interp:a0", rec(lambda: g.interp(da, nm[a0], to="left", boundary="extend").transpose(e0, fd, ...), inv)))
    out.append(("vector", rec(lambda: g.diff({nm[a0]: u}, nm[a0], other_component={nm[a1]: v}, boundary="fill").transpose(e0, fd, ...), inv)))
    out.append(("vector:a1", rec(lambda: g.interp({nm[a1]: v}, nm[a1], other_component={nm[a0]: u}, boundary="fill").transpose(e0, fd, ...), inv)))
    # a component padded along the *other* axis (its tangential direction), across the axis-swapping link
    from xgcm.padding import pad

    uc = xr.DataArray(gen.unique_data((2, 2, N, N), 1), dims=[e0, fd, y, x])
    vc = xr.DataArray(gen.unique_data((2, 2, N, N), 501), dims=[e0, fd, y, x])
    for lbl, comp, oth, along in (("pad-tangential:a1", a1, a0, a0), ("pad-tangential:a0", a0, a1, a1)):
        cv, ov = (vc, uc) if comp == a1 else (uc, vc)
        out.append((lbl, rec(lambda cv=cv, ov=ov, comp=comp, oth=oth, along=along: pad({nm[comp]: cv}, g, {nm[along]: (1, 1)}, boundary="fill", fill_value=0.0,
                                                                                       other_component={nm[oth]: ov}).transpose(e0, fd, ...), inv)))
    return out


def rng_choice(seed, items):
    return items[seed % len(items)]


def run_case(ctx, desc):
    roles = desc["roles"]
    base = base_naming(roles)
    try:
        ref = scenario(desc, base)
    except Exception as e:
        import traceback

        ctx.inconclusive_reason("scenario crashed under ordinary names: " + traceback.format_exc()[-500:])
        return
    try:
        got = scenario(desc, desc["renaming"])
    except Exception as e:
        ctx.judged((desc["kind"], desc["cats"]), True)
        ctx.violation("renamed-run-completes", f"{desc['kind']}: the scenario crashed under the renaming {desc['renaming']}: {type(e).__name__}: {str(e)[:200]}")
        return
    if ctx.case_index % 40 == 0:
        ctx.sample({"kind": desc["kind"], "renaming": desc["renaming"], "calls": [l for l, _ in ref]})
    for (l1, r1), (l2, r2) in zip(ref, got):
        ctx.judged((desc["kind"], l1.split(":")[0], desc["cats"]), True)
        a = {k: v for k, v in r1.items() if k != "msg"}
        b = {k: v for k, v in r2.items() if k != "msg"}
        if a["outcome"] == "raise" and b["outcome"] == "raise":
            continue  # both refused: same accept/reject outcome (the exception class may legitimately differ)
        if a != b:
            ren = {k: v for k, v in desc["renaming"].items()}
            ctx.violation("renaming-changes-only-labels",
                          f"{desc['kind']} call {l1}: ordinary names -> {json.dumps(r1)[:200]}; renamed -> {json.dumps(r2)[:260]}; renaming {ren}")
            return
