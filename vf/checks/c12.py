"""C12 - results do not depend on the hash seed or on table ordering."""
import hashlib
import itertools
import json
import os
import random
import warnings

import numpy as np

from .. import core, gen
from ..models import conventions as conv
from ..models import linktable, topo
from . import c01, c09, c10

ID = "C12"
NEEDS_SHIM = False
HASHSEEDS = {"quick": [0, 1, 2, 3, 5, 7, 11, 4242], "thorough": list(range(0, 40)) + [97, 1000, 4242, 65535, 123456, 999999, 2**31, 4294967295]}
BUDGET = {"quick": 500, "thorough": 4000}
MIN_EVALS = {"quick": 3000, "thorough": 100000}
RULE = (
    "differential over interpreters: the same seeded scenario list is executed in fresh subprocesses started with "
    "different PYTHONHASHSEED values (quick 8, thorough 48); every scenario writes a canonical record (return/raise type, "
    "dims in order, shape, sha256 of the values, coordinate names, text) and the parent demands byte-identical records for "
    "every seed. Scenario classes: (a) 2-D pad of scalars and vector components on face-connected grids (geometric, random "
    "reciprocal, cubed sphere) with widths > 0 on both axes, all rules, corner cells and result dim order included, and the "
    "same call on the same table listed in a permuted insertion order of faces / axes (must be identical within the "
    "process too); (a') Grid(face_connections=...) accept/refuse of consistent and edited (inconsistent) tables under several listing orders; (b) equivalent() on multi-axis signatures and their renamings; (c) list(Grid(ds).axes) and repr for "
    "COMODO / SGRID datasets with 2-4 axes; (d) get_metric / integrate for registries offering several partitions of the "
    "requested axes with numerically different products; (e) a regression slice of the generators of C01, C09, C10 "
    "(multi-axis calls); (f) metrics and fields that must be moved along 2-3 axes at once (centre <-> corner), with inexact floating-point values so that the order of the axes shows in the last bit. Axis names are drawn from a pool so that set iteration orders differ between seeds; each "
    "subprocess records the iteration order of sentinel sets and the evidence counts the distinct orders seen. One verdict "
    "per (scenario, hash seed); class = (scenario class, its discrete features); non-trivial iff the scenario involves >= 2 axes."
)
REQUIRED_REACH = ["xgcm.padding._pad_face_connections", "xgcm.padding._get_all_connection_axes",
                  "xgcm.grid_ufunc._GridUFuncSignature.equivalent", "xgcm.comodo.get_all_axes", "xgcm.sgrid.get_all_axes",
                  "xgcm.metrics.iterate_axis_combinations"]
NAMES = ["X", "Y", "Z", "lon", "lat", "k", "xi", "eta", "T", "depth", "ax1", "W", "i", "j", "a", "b"]


# ---------------------------------------------------------------------------------------------------
def sha(a):
    return hashlib.sha256(np.ascontiguousarray(np.asarray(a, dtype=float)).tobytes()).hexdigest()[:16]


def digest(r):
    import xarray as xr

    if isinstance(r, xr.DataArray):
        return {"dims": list(r.dims), "shape": list(r.shape), "sha": sha(r.values), "coords": sorted(map(str, r.coords)), "name": r.name}
    if isinstance(r, (list, tuple)):
        return [digest(x) for x in r]
    if isinstance(r, dict):
        return {str(k): digest(v) for k, v in r.items()}
    if isinstance(r, (bool, int, float, str)) or r is None:
        return r
    return repr(r)


def attempt(f):
    try:
        with warnings.catch_warnings():
            warnings.simplefilter("ignore")
            return {"outcome": "return", "value": digest(f())}
    except Exception as e:
        return {"outcome": "raise"}  # the kind of exception is not part of "accept/reject outcome"


# ---------------------------------------------------------------------------------------------------
def gen_case(rng, i, tier):
    kind = ["pad", "pad", "ctor", "equiv", "parse", "metric", "metric", "slice01", "slice09", "slice10", "pad", "ctor", "twodims", "move2"][i % 14]
    if kind == "move2":
        # something that has to be moved along two (or three) axes at once - a metric registered on cell centres asked for at
        # cell corners - with values that are not exactly representable sums, so that the order in which the axes are
        # visited shows in the last bit
        names = rng.sample(NAMES, rng.choice([2, 2, 3]))
        return {"kind": "move2", "names": names, "n": [rng.randint(3, 5) for _ in names], "seed": rng.getrandbits(31),
                "frm": rng.choice(["center", "left"]), "listed": rng.sample(names, len(names))}
    if kind == "twodims":
        # an ill-posed input - an array carrying two dimensions of the same axis - through pad, a grid ufunc and diff:
        # whatever the outcome (refusal), it is the same under every hash seed
        for _ in range(50):
            d = c01.gen_case(rng, i, tier)
            cm = gen.layout_coords(d["layout"])
            multi = [a for a in cm if len(cm[a]) >= 2]
            if multi:
                break
        a = rng.choice(multi)
        p1, p2 = rng.sample(list(cm[a]), 2)
        return {"kind": "twodims", "d": d, "axis": a, "dims": [cm[a][p1], cm[a][p2]], "width": [rng.randint(0, 2), rng.randint(1, 2)]}
    if kind == "ctor":
        # accept/reject of a (possibly inconsistent) link table must not depend on the order in which it is listed
        nf = rng.randint(2, 4)
        t = linktable.random_reciprocal(rng, nf, drop_empty=0.0)
        slots = [(f, a, s) for f in t for a in t[f] for s in (0, 1)]
        edits = []
        for _ in range(rng.choice([0, 1, 1, 2])):
            f, a, s = rng.choice(slots)
            edits.append([f, a, s, rng.choice([None, [rng.randrange(nf), rng.choice("XY"), rng.random() < 0.5]])])
        tt = {str(f): {a: [None if l is None else list(l) for l in lr] for a, lr in d.items()} for f, d in t.items()}
        for f, a, s, v in edits:
            tt[str(f)][a][s] = v
        return {"kind": "ctor", "table": tt, "nf": nf, "perm_seeds": [rng.getrandbits(16) for _ in range(4)], "n_edits": len(edits)}
    if kind == "pad":
        fam = rng.choice(["geometric", "random", "cubed-sphere"])
        if fam == "geometric":
            Kx, Ky = rng.choice([(2, 1), (1, 2), (2, 2), (3, 2)])
            T, t = topo.random_topo(rng, Kx, Ky, 2, rng.random() < 0.5)
            nf = Kx * Ky
        elif fam == "random":
            nf = rng.randint(2, 5)
            t = linktable.random_reciprocal(rng, nf, drop_empty=0.2)
        else:
            from .c05 import CUBED_SPHERE

            t, nf = CUBED_SPHERE, 6
        N = rng.randint(2, 4)
        m = min(2, N)
        a1, a2 = rng.sample(NAMES, 2)
        ren = {"X": a1, "Y": a2}
        tt = {str(f): {ren[a]: [None if l is None else [l[0], ren[l[1]], l[2]] for l in lr] for a, lr in d.items()} for f, d in t.items()}
        return {"kind": "pad", "family": fam, "table": tt, "nf": nf, "N": N, "axes": [a1, a2],
                "bw": {a1: [rng.randint(1, m), rng.randint(1, m)], a2: [rng.randint(1, m), rng.randint(1, m)]},
                "rule": {a1: rng.choice(gen.RULES), a2: rng.choice(gen.RULES)}, "fill": {a1: -1.5, a2: 7.0},
                "mode": rng.choice(["scalar", "scalar", "u", "v"]), "perm_seed": rng.getrandbits(16),
                "bw_order_swapped": rng.random() < 0.5}
    if kind == "equiv":
        names = rng.sample(NAMES, rng.randint(2, 3))
        arg = lambda: [[rng.choice(names), rng.choice(gen.POSITIONS)] for _ in range(rng.randint(1, 2))]  # noqa: E731
        ins = [arg() for _ in range(rng.randint(1, 3))]
        outs = [arg() for _ in range(rng.randint(1, 2))]
        others = [n for n in NAMES if n not in names]
        rng.shuffle(others)
        return {"kind": "equiv", "ins": ins, "outs": outs, "names": names, "fresh": others[: len(names)],
                "rot": names[1:] + names[:1]}
    if kind == "parse":
        if rng.random() < 0.6:
            nax = rng.randint(2, 4)
            names = rng.sample(NAMES, nax)
            spec = {a: {"n": rng.randint(2, 4), "pos": {p: f"{a}_{p}" for p in gen.random_positions(rng, 0.5, at_least=2)}} for a in names}
            return {"kind": "parse", "conv": "comodo", "spec": spec, "aseed": rng.getrandbits(31)}
        k = rng.choice(["2d", "2dv", "3d"])
        nax = {"2d": 2, "2dv": 3, "3d": 3}[k]
        spec = {}
        for a in "XYZ"[:nax]:
            pad = rng.choice(list(conv.PAD2POS))
            spec[a] = {"n": rng.randint(2, 4), "pos": {"center": a.lower() + "c", conv.PAD2POS[pad]: a.lower() + "g"}}
        return {"kind": "parse", "conv": "sgrid", "sgrid_kind": k, "spec": spec, "aseed": rng.getrandbits(31)}
    if kind == "metric":
        names = rng.sample(NAMES, 3)
        layout = {"axes": [{"name": a, "pos": [["center", f"{a}_c"], ["left", f"{a}_l"]], "n": rng.randint(2, 3)} for a in names]}
        # register several partitions: all three 2-sets and all singletons (numerically different products)
        reg = []
        k = 0
        only_single = rng.random() < 0.35  # dx, dy, dz only: the product has three factors whose order must not vary
        for sub in ([] if only_single else list(itertools.combinations(names, 2))) + [(a,) for a in names]:
            if only_single or rng.random() < 0.85:
                reg.append([list(sub), [[f"m{k}", ["center"] * len(sub)]]])
                k += 1
        rng.shuffle(reg)
        q = names[:]
        rng.shuffle(q)
        return {"kind": "metric", "layout": layout, "registry": reg, "query": q, "mseed": rng.getrandbits(31),
                "apos": {a: "center" for a in names}, "adims": [f"{a}_c" for a in names], "extra": {}, "dseed": 5, "periodic": False}
    if kind == "slice01":
        for _ in range(20):
            d = c01.gen_case(rng, i, tier)
            if isinstance(d["call"]["axis"], list) and len(d["call"]["axis"]) > 1:
                break
        return {"kind": "slice01", "d": d}
    if kind == "slice09":
        for _ in range(20):
            d = c09.gen_case(rng, i, tier)
            if isinstance(d["call"]["axis"], list) and len(d["call"]["axis"]) > 1:
                break
        return {"kind": "slice09", "d": d}
    for _ in range(20):
        d = c10.gen_case(rng, i, tier)
        if len(d["query"]) > 1:
            break
    return {"kind": "slice10", "d": d}


# ---------------------------------------------------------------------------------------------------
def run_pad(desc, permuted):
    import xarray as xr
    from xgcm import Grid
    from xgcm.padding import pad

    N, nf = desc["N"], desc["nf"]
    a1, a2 = desc["axes"]
    t = {int(f): {a: tuple(None if l is None else (l[0], l[1], bool(l[2])) for l in lr) for a, lr in d.items()} for f, d in desc["table"].items()}
    if permuted:
        r = random.Random(desc["perm_seed"])
        faces = list(t)
        r.shuffle(faces)
        t2 = {}
        for f in faces:
            ax = list(t[f])
            r.shuffle(ax)
            t2[f] = {a: t[f][a] for a in ax}
        t = t2
    d1, d1s, d2, d2s = f"{a1}_c", f"{a1}_l", f"{a2}_c", f"{a2}_l"
    ds = xr.Dataset(coords={d1: (d1, np.arange(N) + 0.5), d1s: (d1s, np.arange(N) * 1.0), d2: (d2, np.arange(N) + 0.5),
                            d2s: (d2s, np.arange(N) * 1.0), "face": ("face", np.arange(nf))})
    cm = {a1: {"center": d1, "left": d1s}, a2: {"center": d2, "left": d2s}}
    g = Grid(ds, coords=cm, face_connections={"face": t}, periodic=False, autoparse_metadata=False)
    U = gen.unique_data((nf, N, N), 1)
    V = gen.unique_data((nf, N, N), 5001)
    mode = desc["mode"]
    if mode == "scalar":
        arg, oc = xr.DataArray(U, dims=["face", d2, d1]), None
    elif mode == "u":
        arg, oc = {a1: xr.DataArray(U, dims=["face", d2, d1s])}, {a2: xr.DataArray(V, dims=["face", d2s, d1])}
    else:
        arg, oc = {a2: xr.DataArray(U, dims=["face", d2s, d1])}, {a1: xr.DataArray(V, dims=["face", d2, d1s])}
    order = [a2, a1] if desc["bw_order_swapped"] else [a1, a2]
    bw = {a: tuple(desc["bw"][a]) for a in order}
    return pad(arg, g, bw, boundary=dict(desc["rule"]), fill_value=dict(desc["fill"]), other_component=oc)


def run_scenario(ctx, desc):
    """-> (record, class key)"""
    kind = desc["kind"]
    if kind == "pad":
        rec = attempt(lambda: run_pad(desc, False))
        rec2 = attempt(lambda: run_pad(desc, True))
        if rec != rec2:
            ctx.violation("independent-of-table-insertion-order",
                          f"pad differs when the same links are listed in another order: {json.dumps(rec)[:200]} vs {json.dumps(rec2)[:200]}",
                          mechanism=None)
        return rec, ("pad", desc["family"], desc["mode"], sorted(desc["rule"].values()))
    if kind == "ctor":
        import xarray as xr
        from xgcm import Grid

        N, nf = 2, desc["nf"]
        ds = xr.Dataset(coords={"x": ("x", np.arange(N) + 0.5), "xl": ("xl", np.arange(N) * 1.0), "y": ("y", np.arange(N) + 0.5),
                                "yl": ("yl", np.arange(N) * 1.0), "face": ("face", np.arange(nf))})
        cm = {"X": {"center": "x", "left": "xl"}, "Y": {"center": "y", "left": "yl"}}
        t = {int(f): {a: tuple(None if l is None else (l[0], l[1], bool(l[2])) for l in lr) for a, lr in d.items()} for f, d in desc["table"].items()}
        outs = []
        for ps in [None] + desc["perm_seeds"]:
            tl = t if ps is None else linktable.listed_in_order(t, ps)
            try:
                Grid(ds, coords=cm, face_connections={"face": tl}, periodic=False, autoparse_metadata=False)
                outs.append("accepted")
            except Exception:
                outs.append("refused")
        if len(set(outs)) > 1:
            ctx.violation("independent-of-table-insertion-order", f"Grid(face_connections=...) gives {outs} for the same links listed in different orders: {desc['table']}")
        return {"outcome": outs[0]}, ("ctor", desc["n_edits"], outs[0])
    if kind == "equiv":
        from xgcm.grid_ufunc import _GridUFuncSignature as S

        from ..models import signature as sigm

        p = ([[tuple(x) for x in a] for a in desc["ins"]], [[tuple(x) for x in a] for a in desc["outs"]])
        s0 = S.from_string(sigm.render(*p))
        out = {}
        for nm, mp in (("fresh", dict(zip(desc["names"], desc["fresh"]))), ("rot", dict(zip(desc["names"], desc["rot"])))):
            s1 = S.from_string(sigm.render(*sigm.rename(p, mp)))
            out[nm] = [bool(s0.equivalent(s1)), bool(s1.equivalent(s0))]
        return {"outcome": "return", "value": out}, ("equiv", len(desc["names"]), len(desc["ins"]))
    if kind == "parse":
        from xgcm import Grid

        rng = random.Random(desc["aseed"])
        if desc["conv"] == "comodo":
            ds = conv.comodo_dataset(desc["spec"], rng)
            if desc["aseed"] % 2:
                # dimensions that belong to no axis (time, face, ensemble member): with and without a coordinate variable
                import xarray as xr

                ds = ds.assign_coords(time=("time", np.arange(3.0)))
                ds["member_data"] = (("member", "time"), np.zeros((2, 3)))
                ds = xr.Dataset(ds.data_vars, coords={k: ds.coords[k] for k in (["time"] + [c for c in ds.coords if c != "time"])[:: (1 if desc["aseed"] % 4 == 1 else -1)]})
        else:
            ds = conv.sgrid_dataset(desc["spec"], desc["sgrid_kind"], rng)

        def f():
            g = Grid(ds, periodic=False)
            return {"axes": list(g.axes), "repr": repr(g), "coords": {a: list(ax.coords.items()) for a, ax in g.axes.items()}}

        return attempt(f), ("parse", desc["conv"], len(desc["spec"]))
    if kind == "move2":
        import xarray as xr
        from xgcm import Grid

        names, frm = desc["names"], desc["frm"]
        to = "left" if frm == "center" else "center"
        sfx = {"center": "_c", "left": "_l"}
        r = np.random.default_rng(desc["seed"])
        ds = xr.Dataset(coords={a + s_: (a + s_, np.arange(n) + (0.5 if s_ == "_c" else 0.0)) for a, n in zip(names, desc["n"]) for s_ in ("_c", "_l")})
        fdims = [a + sfx[frm] for a in names]
        for k, a in enumerate(names):
            ds["d" + a] = (fdims, 0.5 + r.random([ds.sizes[d] for d in fdims]))
        ds["vol"] = (fdims, 0.5 + r.random([ds.sizes[d] for d in fdims]))
        mets = {(a,): ["d" + a] for a in names}
        mets[tuple(names)] = ["vol"]
        g = Grid(ds, coords={a: {"center": a + "_c", "left": a + "_l"} for a in names}, metrics=mets, periodic=False, boundary="extend", autoparse_metadata=False)
        tdims = [a + sfx[to] for a in names]
        arr = xr.DataArray(r.random([ds.sizes[d] for d in tdims]), dims=tdims)
        src = xr.DataArray(r.random([ds.sizes[d] for d in fdims]), dims=fdims)

        # several metrics registered in ONE later call for an axis that already has some, followed by requests whose answer
        # depends on which of them is taken (nothing registered at the array's position: one of them is interpolated; two
        # of them fit the array): whichever it is, it is the same under every hash seed
        A, B = names[0], names[1]
        n2 = desc["n"][0]
        ds2 = xr.Dataset(coords={f"{A}_c": np.arange(n2) + 0.5, f"{A}_l": np.arange(n2) + 0.0, f"{A}_r": np.arange(n2) + 1.0,
                                 f"{A}_o": np.arange(n2 + 1) + 0.0, f"{B}_c": np.arange(3) + 0.5})
        late = [f"{A}{B}w", f"w{B}{A}", f"{B}_{A}_2d"]
        ds2[f"first_{A}"] = ((f"{A}_c",), 0.5 + r.random(n2))
        ds2[late[0]] = ((f"{A}_r",), 0.5 + r.random(n2))
        ds2[late[1]] = ((f"{A}_o",), 0.5 + r.random(n2 + 1))
        ds2[late[2]] = ((f"{A}_c", f"{B}_c"), 0.5 + r.random((n2, 3)))
        g2 = Grid(ds2, coords={A: {"center": f"{A}_c", "left": f"{A}_l", "right": f"{A}_r", "outer": f"{A}_o"}, B: {"center": f"{B}_c"}},
                  metrics={(A,): [f"first_{A}"]}, periodic=False, boundary="extend", autoparse_metadata=False)
        at_left = xr.DataArray(r.random(n2), dims=[f"{A}_l"])
        at_c2d = xr.DataArray(r.random((n2, 3)), dims=[f"{A}_c", f"{B}_c"])

        def f():
            out = {"metric_all": g.get_metric(arr, desc["listed"]), "metric_one": g.get_metric(arr, [names[0]]),
                   "interp_like": g.interp_like(src, arr), "average": g.average(arr, desc["listed"]),
                   "interp": g.interp(src, desc["listed"], to=to)}
            g2.set_metrics(A, [late[k] for k in np.random.default_rng(desc["seed"]).permutation(3)])
            out["late_batch_left"] = g2.get_metric(at_left, A)
            out["late_batch_2d"] = g2.get_metric(at_c2d, A)
            out["late_batch_integrate"] = g2.integrate(at_c2d, A)
            return out

        return attempt(f), ("move2", len(names), frm)
    if kind == "metric":
        import xarray as xr

        ds, g = c10.build(desc)
        arr = xr.DataArray(gen.quarter_data(7, [ds.sizes[d] for d in desc["adims"]]), dims=desc["adims"])

        def f():
            return {"metric": g.get_metric(arr, desc["query"]), "integrate": g.integrate(arr, desc["query"]),
                    "sorted_query_metric": g.get_metric(arr, sorted(desc["query"]))}

        return attempt(f), ("metric", len(desc["registry"]))
    d = desc["d"]
    if kind == "twodims":
        import xarray as xr

        from xgcm.padding import pad

        def f():
            ds, g = c01.make_grid(d)
            arr = xr.DataArray(gen.quarter_data(5, [ds.sizes[x] for x in desc["dims"]] + [2]), dims=desc["dims"] + ["t_extra"])
            a = desc["axis"]
            out = {}
            for nm, call in (("pad", lambda: pad(arr, g, {a: tuple(desc["width"])}, boundary="extend")),
                             ("ufunc", lambda: g.apply_as_grid_ufunc(lambda x: x[..., 1:], arr, axis=[(a,)], signature="(Q:center)->(Q:center)",
                                                                     boundary_width={"Q": (1, 0)}, boundary="extend")),
                             ("diff", lambda: g.diff(arr, a, boundary="extend"))):
                out[nm] = attempt(call)
            return out

        return attempt(f), ("twodims", len(desc["dims"]))
    if kind == "slice01":
        def f():
            ds, g = c01.make_grid(d)
            da = c01.make_da(d, ds)
            return getattr(g, d["call"]["op"])(da, d["call"]["axis"], **c01.call_kwargs(d["call"]))

        return attempt(f), ("slice01", d["call"]["op"], len(d["call"]["axis"]) if isinstance(d["call"]["axis"], list) else 1)
    if kind == "slice09":
        def f():
            ds, g = c09.build(d)
            da = c01.make_da(d, ds)
            kw = {k: d["call"][k] for k in ("to", "boundary", "fill_value") if k in d["call"]}
            return g.cumsum(da, d["call"]["axis"], **kw)

        return attempt(f), ("slice09", len(d["call"]["axis"]) if isinstance(d["call"]["axis"], list) else 1)
    import xarray as xr

    def f():
        ds, g = c10.build(d)
        arr = xr.DataArray(gen.quarter_data(d["dseed"], [ds.sizes[x] for x in d["adims"]]), dims=d["adims"])
        return {"metric": g.get_metric(arr, d["query"]), "integrate": g.integrate(arr, d["query"])}

    return attempt(f), ("slice10", len(d["query"]))


def run_case(ctx, desc):
    rec, ckey = run_scenario(ctx, desc)
    ctx.judged(ckey, True)
    ctx.record(ctx.case_index, hashlib.sha256(json.dumps(rec, sort_keys=True).encode()).hexdigest()[:20] + "|" + json.dumps(rec, sort_keys=True)[:300])
    names = desc.get("axes") or desc.get("names") or (list(desc["spec"]) if "spec" in desc else None)
    if names:
        ctx.note("set_orders", (sorted(names), list(set(names))))
    if ctx.case_index % 50 == 0:
        ctx.sample({"case": desc, "record": rec})


# ---------------------------------------------------------------------------------------------------
def custom_driver(tier, seed, work):
    import sys

    mod = sys.modules[__name__]
    seeds = HASHSEEDS[tier]
    if os.environ.get("VERIF_HASHSEEDS"):
        seeds = [int(x) for x in os.environ["VERIF_HASHSEEDS"].split(",")]
    ncpu = int(os.environ.get("VERIF_JOBS", os.cpu_count() or 4))
    per = max(1, ncpu // len(seeds))
    jobs = [(f"h{h}_{k}", str(h), k, per, None) for h in seeds for k in range(per)]
    res, extra = core.run_jobs(mod, ID, tier, seed, work, jobs)
    by_seed = {}
    for h in seeds:
        recs = {}
        for k in range(per):
            r = res.get(f"h{h}_{k}")
            if r is None:
                recs = None
                break
            recs.update(r.get("records", {}))
        by_seed[h] = recs
    results = [r for r in res.values()]
    ok_seeds = [h for h in seeds if by_seed[h] is not None]
    if len(ok_seeds) < 2:
        extra.append("fewer than two hash seeds completed")
        return results, extra
    ref = by_seed[ok_seeds[0]]
    ctx = core.Ctx(ID, tier, seed)
    for idx in sorted(ref, key=int):
        vals = {h: by_seed[h].get(idx) for h in ok_seeds}
        if len(set(vals.values())) > 1:
            i = int(idx)
            desc = gen_case(ctx.rng(i), i, tier)
            groups = {}
            for h, v in vals.items():
                groups.setdefault(v, []).append(h)
            ctx.case_index = i
            ctx.case_desc = desc
            shown = "; ".join(f"seeds {hs[:4]}: {str(v)[21:160]}" for v, hs in list(groups.items())[:3])
            ctx.violation("identical-across-hash-seeds", f"scenario {i} ({desc['kind']}) gives {len(groups)} different records: {shown}",
                          mechanism=None, desc=desc)
    syn = ctx.result()
    syn["reached"] = []
    syn["reach_active"] = True
    syn["counters"] = {"hash_seeds_compared": len(ok_seeds), "scenarios_compared": len(ref)}
    syn["sets"] = {"hash_seeds": [json.dumps(h) for h in ok_seeds]}
    results.append(syn)
    return results, extra
