"""C05 - halo cells across every kind of face link come from the documented cell."""
import numpy as np

from .. import gen
from ..models import linktable, topo
from ..models.pad import pad_axis

ID = "C05"
NEEDS_SHIM = False
BUDGET = {"quick": 2400, "thorough": 150000}
MIN_EVALS = {"quick": 2000, "thorough": 40000}
RULE = (
    "seeded random pads on face-connected grids: link tables are (a) geometric tables of Kx x Ky faces with random D4 "
    "orientations, (b) random reciprocal tables of 2-6 faces built by pairing free edge slots (all 8 link kinds, "
    "self-links), (c) the 6-face cubed sphere of the documentation; face size N 2-5; scalar input or C-grid vector "
    "component (+ other_component), unique-id data so that a halo value identifies the cell and sign fetched; "
    "widths 0..min(3,N) independently per side and axis, axes optionally omitted; fill/extend/periodic on open edges; "
    "face and extra dims at random places. Oracle read directly off the table: source face, own or partner component, "
    "depth-k index from the linked edge, same or mirrored along-edge index, sign; interiors unchanged; unlinked edges by "
    "the padding model; corner cells are not judged (C12). One verdict per pad; class = (input kind, link kinds present, "
    "width pattern, rules on open edges, N); non-trivial iff a halo cell across a link was compared."
)
REQUIRED_REACH = ["xgcm.padding._pad_face_connections", "xgcm.padding._maybe_swap_dimension_names", "xgcm.padding.pad"]

CUBED_SPHERE = {
    0: {"X": ((3, "X", False), (1, "X", False)), "Y": ((4, "Y", False), (5, "Y", False))},
    1: {"X": ((0, "X", False), (2, "X", False)), "Y": ((4, "X", False), (5, "X", True))},
    2: {"X": ((1, "X", False), (3, "X", False)), "Y": ((4, "Y", True), (5, "Y", True))},
    3: {"X": ((2, "X", False), (0, "X", False)), "Y": ((4, "X", True), (5, "X", False))},
    4: {"X": ((3, "Y", True), (1, "Y", False)), "Y": ((2, "Y", True), (0, "Y", False))},
    5: {"X": ((3, "Y", False), (1, "Y", True)), "Y": ((0, "Y", False), (2, "Y", True))},
}


def gen_table(rng):
    r = rng.random()
    if r < 0.3:
        Kx, Ky = rng.choice([(1, 1), (2, 1), (1, 2), (2, 2), (3, 1), (3, 2), (2, 3)])
        T, t = topo.random_topo(rng, Kx, Ky, 2, rng.random() < 0.5)
        if t is not None:
            return "geometric", t, Kx * Ky
    if r < 0.36:
        return "cubed-sphere", CUBED_SPHERE, 6
    nf = rng.randint(2, 6)
    return "random-reciprocal", linktable.random_reciprocal(rng, nf, p_link=rng.choice([0.7, 0.9, 0.98]), drop_empty=0.15), nf


def gen_case(rng, i, tier):
    fam, t, nf = gen_table(rng)
    N = rng.randint(2, gen.deep(rng, tier, 5, 7, 0.15))
    m = min(3, N)
    bw = {}
    for a in "XY":
        if rng.random() < 0.85:
            bw[a] = [rng.randint(0, m), rng.randint(0, m)]
    if not bw:
        bw["X"] = [1, 1]
    if rng.random() < 0.05:
        bw = {a: [0, 0] for a in bw}
    extra = {e: rng.randint(1, 2) for e in rng.sample(gen.EXTRA_DIM_POOL, rng.choice([0, 0, 1, 2]))}
    mode = rng.choice(["scalar", "scalar", "u", "v"])
    order = ["face", "Ydim", "Xdim"] + list(extra)
    rng.shuffle(order)
    return {
        "family": fam, "table": {str(f): {a: [None if l is None else list(l) for l in lr] for a, lr in d.items()} for f, d in t.items()},
        "nf": nf, "N": N, "bw": bw, "extra": extra, "mode": mode, "order": order,
        "rule": {a: rng.choice(gen.RULES) for a in "XY"}, "fill": {a: rng.choice([-5.0, 0.0, 7.5]) for a in "XY"},
        "rule_spelling": rng.choice(["call", "grid"]), "shuffle_seed": rng.getrandbits(16),
        "staggered": rng.choice(["left", "left", "right"]),
    }


def build_grid(desc, table=None):
    import xarray as xr
    from xgcm import Grid

    N, nf = desc["N"], desc["nf"]
    sp = desc["staggered"]
    off = 0.0 if sp == "left" else 1.0
    coords = {"x": ("x", np.arange(N) + 0.5), "xs": ("xs", np.arange(N) + off), "y": ("y", np.arange(N) + 0.5),
              "ys": ("ys", np.arange(N) + off), "face": ("face", np.arange(nf))}
    for e, n in desc["extra"].items():
        coords[e] = (e, np.arange(n) * 1.0)
    ds = xr.Dataset(coords=coords)
    cm = {"X": {"center": "x", sp: "xs"}, "Y": {"center": "y", sp: "ys"}}
    t = linktable.norm(desc["table"]) if table is None else table
    kw = {}
    if desc["rule_spelling"] == "grid":
        kw = {"boundary": dict(desc["rule"]), "fill_value": dict(desc["fill"])}
    t_listed = linktable.listed_in_order(t, desc["shuffle_seed"]) if desc["shuffle_seed"] % 2 else t
    g = Grid(ds, coords=cm, face_connections={"face": linktable.spelled(t_listed, desc["shuffle_seed"] // 2)}, periodic=False, autoparse_metadata=False, **kw)
    return ds, g, cm, t


def make_inputs(desc, ds):
    """-> (arg, other_component, data ndarray [extra..., face, j, i], partner ndarray or None, dimY, dimX, vector_axis)"""
    import xarray as xr

    N, nf = desc["N"], desc["nf"]
    ex = list(desc["extra"])
    exs = [desc["extra"][e] for e in ex]
    shape = exs + [nf, N, N]
    U = gen.unique_data(shape, start=1)
    V = gen.unique_data(shape, start=100001)
    mode = desc["mode"]
    if desc["shuffle_seed"] % 7 == 5:
        # some cells hold no value (land points): a missing value is copied into the halo like any other
        import random

        nr = random.Random(desc["shuffle_seed"])
        for A in (U, V):
            A[np.array([nr.random() < 0.25 for _ in range(A.size)]).reshape(A.shape)] = np.nan
    if mode == "scalar":
        # a scalar may live on any of the four position pairs (tracer, u-, v- or vorticity points)
        dY, dX = [("y", "x"), ("y", "xs"), ("ys", "x"), ("ys", "xs")][desc["shuffle_seed"] % 4 if desc["shuffle_seed"] % 3 == 0 else 0]
        va = None
    elif mode == "u":
        dY, dX, va = "y", "xs", "X"
    else:
        dY, dX, va = "ys", "x", "Y"
    names = {"face": "face", "Ydim": dY, "Xdim": dX}
    canon = ex + ["face", dY, dX]
    final = [names.get(d, d) for d in desc["order"]]
    narrow = mode != "scalar" and desc["shuffle_seed"] % 5 == 2 and not np.isnan(U).any()
    if narrow:
        # the two components may be stored with different precision: the padded one in single precision (its whole-numbered
        # values and the fill values are exact there), the partner in double precision with values single precision cannot
        # hold - a halo cell cut from the partner holds the partner's value
        V = V + 0.3
    da = xr.DataArray(U.astype("float32") if narrow else U, dims=canon).transpose(*final)
    if mode == "scalar":
        return da, None, U, None, dY, dX, va, canon
    pY, pX = ("ys", "x") if mode == "u" else ("y", "xs")
    pcanon = ex + ["face", pY, pX]
    pfinal = [{"face": "face", "Ydim": pY, "Xdim": pX}.get(d, d) for d in desc["order"]]
    dv = xr.DataArray(V, dims=pcanon).transpose(*pfinal)
    other_axis = "Y" if mode == "u" else "X"
    return {va: da}, {other_axis: dv}, U, V, dY, dX, va, canon


def expected_cell(desc, t, data, partner, va, f, i, j):
    """Model value at local (possibly halo) index (i, j) of face f, arrays indexed [..., face, j, i];
    returns (values over the leading extra dims, link kind or None) or (None, None) for corners."""
    N = desc["N"]
    inx, iny = 0 <= i < N, 0 <= j < N
    if inx and iny:
        return data[..., f, j, i], None
    if not inx and not iny:
        return None, None
    a = "X" if not inx else "Y"
    idx = i if a == "X" else j
    p = j if a == "X" else i
    side = 0 if idx < 0 else 1
    k = -idx if idx < 0 else idx - N + 1
    src = linktable.halo_source(t, N, f, a, side, k, p)
    if src is None:
        rule, fv = desc["rule"][a], desc["fill"][a]
        if rule == "fill":
            return np.full(data.shape[:-3], fv), ("open", rule)
        kk = min(max(idx, 0), N - 1) if rule == "extend" else idx % N
        return (data[..., f, j, kk] if a == "X" else data[..., f, kk, i]), ("open", rule)
    g, b, d, pp, use_partner, rev = src
    arr = partner if (use_partner and partner is not None) else data
    v = arr[..., g, pp, d] if b == "X" else arr[..., g, d, pp]
    return linktable.halo_sign(va, a, b, rev) * v, linktable.link_kind(side, a, b, rev)


def selftest(ctx):
    """Cross-check the two vocabularies: on geometric tables the table-level halo model must fetch the geometric
    neighbour, and the along-edge map must be an involution between two linked faces."""
    import random

    rng = random.Random(7)
    n = 0
    for _ in range(60):
        Kx, Ky = rng.choice([(1, 1), (2, 1), (2, 2), (3, 1), (3, 2)])
        N = rng.randint(2, 4)
        T, t = topo.random_topo(rng, Kx, Ky, N, rng.random() < 0.5)
        if T is None:
            continue
        G = np.arange(Kx * Ky * N * N, dtype=float).reshape(Ky * N, Kx * N) + 1
        F = T.cut(G)
        desc = {"N": N, "rule": {"X": "fill", "Y": "fill"}, "fill": {"X": -1.0, "Y": -1.0}}
        for f in range(T.nf):
            for (i, j) in [(-1, 0), (N, 1 % N), (0, -1), (N - 1, N), (-2 if N > 2 else -1, N - 1)]:
                v, kind = expected_cell(desc, t, F, None, None, f, i, j)
                c = T.neighbour(f, i, j)
                lk = kind is not None and kind[0] != "open"
                if lk:
                    assert c is not None and v == G[c[1], c[0]], ("table model vs geometry", f, i, j, v, c)
                    n += 1
    assert n > 200, n
    for _ in range(40):
        nf = rng.randint(2, 5)
        t = linktable.random_reciprocal(rng, nf, drop_empty=0)
        N = 3
        for f in t:
            for a in t[f]:
                for side in (0, 1):
                    for p in range(N):
                        s = linktable.halo_source(t, N, f, a, side, 1, p)
                        if s is None:
                            continue
                        g, b, d, pp, _, rev = s
                        side_back = side if rev else 1 - side
                        s2 = linktable.halo_source(t, N, g, b, side_back, 1, pp)
                        assert s2 is not None and s2[0] == f and s2[1] == a and s2[3] == p, "along-edge map not symmetric"


def run_case(ctx, desc):
    from xgcm.padding import pad

    try:
        ds, g, cm, t = build_grid(desc)
    except Exception as e:
        ctx.judged(("ctor-raise", desc["family"]), True)
        ctx.violation("reciprocal-table-accepted", f"Grid(face_connections) raised {type(e).__name__}: {str(e)[:200]}")
        return
    arg, oc, data, partner, dY, dX, va, canon = make_inputs(desc, ds)
    bw = {a: tuple(w) for a, w in desc["bw"].items()}
    kw = {}
    if desc["rule_spelling"] == "call":
        kw = {"boundary": dict(desc["rule"]), "fill_value": dict(desc["fill"])}
    N, nf = desc["N"], desc["nf"]
    kinds = set()
    try:
        p = pad(arg, g, dict(bw), other_component=oc, **kw)
    except Exception as e:
        ctx.judged((desc["mode"], "raise"), True)
        ctx.violation("pad-returns", f"pad({desc['mode']}, widths {bw}) raised {type(e).__name__}: {str(e)[:250]}")
        return
    if isinstance(p, dict) or not hasattr(p, "dims"):
        ctx.judged((desc["mode"], "not-an-array"), True)
        ctx.violation("pad-returns", f"pad returned {type(p).__name__} instead of an array (widths {bw})")
        return
    if set(p.dims) != set(canon):
        ctx.judged((desc["mode"], "dims"), True)
        ctx.violation("pad-dims", f"result dims {p.dims}, input dims {canon}")
        return
    P = p.transpose(*canon).values
    lo = {"X": bw.get("X", (0, 0))[0], "Y": bw.get("Y", (0, 0))[0]}
    hi = {"X": bw.get("X", (0, 0))[1], "Y": bw.get("Y", (0, 0))[1]}
    want_shape = data.shape[:-2] + (N + lo["Y"] + hi["Y"], N + lo["X"] + hi["X"])
    if P.shape != want_shape:
        ctx.judged((desc["mode"], "shape"), True)
        ctx.violation("pad-widths", f"padded shape {P.shape}, expected {want_shape} for widths {bw}")
        return
    bad = None
    ncmp = 0
    for f in range(nf):
        for jj in range(P.shape[-2]):
            for ii in range(P.shape[-1]):
                i, j = ii - lo["X"], jj - lo["Y"]
                exp, kind = expected_cell(desc, t, data, partner, va, f, i, j)
                if exp is None:
                    continue
                if kind is not None:
                    kinds.add(kind)
                    if kind[0] != "open":
                        ncmp += 1
                if bad is None and not np.array_equal(P[..., f, jj, ii], exp, equal_nan=True):
                    bad = (f, j, i, P[..., f, jj, ii].ravel()[0], np.ravel(exp)[0], kind)
    lk = sorted(k for k in kinds if k[0] != "open")
    ckey = (desc["mode"], lk, sorted({k for k in kinds if k[0] == "open"}), [tuple(v) for _, v in sorted(bw.items())], N > 2)
    ctx.judged(ckey, ncmp > 0)
    for k in lk:
        ctx.note("link_kinds_seen", (desc["mode"] != "scalar",) + k)
    ctx.count("halo_cells_across_links_compared", ncmp)
    if ctx.evaluations % 40 == 1:
        ctx.sample({"case": desc, "link_kinds": lk})
    if bad is not None:
        f, j, i, got, exp, kind = bad
        ctx.violation("halo-cell", f"{desc['mode']} N={N} widths {bw}: face {f} local cell (j={j}, i={i}) holds {got}, "
                                   f"expected {exp} via {kind}; table {desc['table']}")
