"""C04 - vector components cross rotated face links with the right partner and sign."""
import functools
import itertools

import numpy as np

from .. import gen
from ..models import linktable, resolve, stencil, topo

ID = "C04"
NEEDS_SHIM = False
RULE = (
    "enumerated + seeded: EVERY assignment of per-face rotations whose junctions are all expressible non-reversed links, "
    "for the arrangements 1x1, 2x1, 1x2, 2x2, 3x1, 3x2, periodic and open (168 topologies, enumerated completely in both "
    "tiers; 12-28 of each larger arrangement contain axis-swapping links), each run with seeded N in 2..4, component "
    "(u along X / v along Y), diff or interp to cell centres from left- or right-staggered components, boundary rule on "
    "open edges, face/extra dims at random places; plus seeded D4 (mirrored) non-reversed topologies; plus grids without "
    "face connections (1-2 axes, every position pair ->center, all rules) where the vector form must equal the scalar "
    "form. Oracle: a global C-grid field (U on all x-edges, V on all y-edges, unique values) cut into faces with the "
    "component and sign each orientation demands; the expected result at every cell is the stencil on the true edge "
    "values of that cell; diff(u,X)+diff(v,Y) must equal the cut of the global divergence bit-exactly. Class = "
    "(family, arrangement, periodic, has swapped link, component, op, staggering, N, open rule); non-trivial iff a "
    "value crossed a link (faces) / always (simple grids)."
)
REQUIRED_REACH = ["xgcm.padding._pad_face_connections", "xgcm.padding._maybe_rename_grid_positions",
                  "xgcm.grid_ufunc._maybe_unpack_vector_component"]
EXHAUSTIVE = {"quick": True, "thorough": True}
EXHAUSTIVE_NOTE = ("the set of rotation-only non-reversed topologies (168) is enumerated completely; N, data, component, "
                   "operator, staggering and layout are sampled per topology (quick: 2 cases each, thorough: 60 each)")
ARRS = [(1, 1), (2, 1), (1, 2), (2, 2), (3, 1), (3, 2)]


@functools.lru_cache(None)
def topologies():
    out = []
    for (Kx, Ky) in ARRS:
        for per in (True, False):
            for ors in itertools.product(range(4), repeat=Kx * Ky):
                T = topo.Topo(Kx, Ky, 2, [topo.ROT[k] for k in ors], per)
                t = T.table()
                if t is None or any(lk and lk[2] for d in t.values() for lr in d.values() for lk in lr):
                    continue
                out.append((Kx, Ky, per, [next(i for i, M in enumerate(topo.D4) if (M == topo.ROT[k]).all()) for k in ors]))
    return out


N_TOPO = 168
PER_TOPO = {"quick": 2, "thorough": 150}
N_D4 = {"quick": 100, "thorough": 12000}
N_SIMPLE = {"quick": 300, "thorough": 24000}
BUDGET = {t: N_TOPO * PER_TOPO[t] + N_D4[t] + N_SIMPLE[t] for t in PER_TOPO}
MIN_EVALS = {"quick": 600, "thorough": 15000}


def gen_case(rng, i, tier):
    nface = N_TOPO * PER_TOPO[tier]
    if i < nface + N_D4[tier]:
        if i < nface:
            tops = topologies()
            assert len(tops) == N_TOPO, len(tops)
            Kx, Ky, per, ors = tops[i % N_TOPO]
            fam = "rotations"
        else:
            Kx, Ky = rng.choice(ARRS + [(2, 3)])
            per = rng.random() < 0.5
            T, t = topo.random_topo(rng, Kx, Ky, 2, per, nonreversed=True)
            if T is None:
                return None
            ors = topo.orient_ids(T)
            fam = "d4-nonreversed"
        extra = {e: rng.randint(1, 2) for e in rng.sample(gen.EXTRA_DIM_POOL, rng.choice([0, 0, 1, 2]))}
        order = ["face", "Ydim", "Xdim"] + list(extra)
        rng.shuffle(order)
        return {"family": fam, "Kx": Kx, "Ky": Ky, "periodic": per, "orients": ors, "N": rng.randint(2, 4),
                "comp": rng.choice("XY"), "op": rng.choice(["diff", "interp"]), "stag": rng.choice(["left", "left", "right"]),
                "rule": {a: rng.choice(gen.RULES) for a in "XY"}, "fill": float(rng.choice([-9, 0, 2.5])),
                "extra": extra, "order": order, "dseed": rng.getrandbits(31), "one_dict": rng.random() < 0.5}
    # grids without face connections
    layout = gen.random_layout(rng, nax=rng.randint(1, 2), nmin=2, nmax=5, p=0.6, at_least=2)
    axn = [a["name"] for a in layout["axes"]]
    cm = gen.layout_coords(layout)
    a = rng.choice(axn)
    frm = rng.choice([p for p in cm[a] if p != "center"])
    other = [x for x in axn if x != a]
    return {"family": "no-face-connections", "layout": layout, "axis": a, "from": frm, "op": rng.choice(["diff", "interp", "min", "max"]),
            "ctor": {"periodic": rng.choice([True, False]), "boundary": gen.random_spelling(rng, axn, gen.RULES, p_none=0.4)},
            "call": {k: v for k, v in {"boundary": gen.random_spelling(rng, axn, gen.RULES, p_none=0.4),
                                       "fill_value": rng.choice([None, -2.5, 3])}.items() if v is not None},
            "other_axis": other[0] if other else None, "with_other": rng.random() < 0.7, "extra_time": rng.random() < 0.5,
            "one_face": rng.random() < 0.25, "dseed": rng.getrandbits(31), "to_given": rng.random() < 0.6}


def run_case(ctx, desc):
    if desc["family"] == "no-face-connections":
        return run_simple(ctx, desc)
    return run_faces(ctx, desc)


def run_faces(ctx, desc):
    import xarray as xr
    from xgcm import Grid

    Kx, Ky, N, per = desc["Kx"], desc["Ky"], desc["N"], desc["periodic"]
    T = topo.Topo(Kx, Ky, N, [topo.D4[k] for k in desc["orients"]], per)
    t = T.table()
    assert t is not None
    W, H = Kx * N, Ky * N
    r = np.random.default_rng(desc["dseed"])
    Ue = r.permutation(np.arange(1, (W + 1) * H + 1)).astype(float).reshape(H, W + 1)
    Ve = (r.permutation(np.arange(1, (H + 1) * W + 1)).astype(float) + 20000).reshape(H + 1, W)
    # a fifth of the single-component cases: the operated component is handed over integer-typed (whole numbers) and its
    # partner multiplied by 1.25 (fractional): what crosses an axis-swapping link is then 1.25 x the true edge value, whatever
    # the sign the link demands, and it must arrive unrounded
    mixed = desc["dseed"] % 5 == 0 and desc["dseed"] % 4 != 0
    if per:
        Ue[:, W] = Ue[:, 0]
        Ve[H, :] = Ve[0, :]
    stag = desc["stag"]
    side = -1 if stag == "left" else 1
    off = 0.0 if stag == "left" else 1.0
    ex = list(desc["extra"])
    lead = [desc["extra"][e] for e in ex]
    nlead = int(np.prod(lead)) if lead else 1
    coords = {"x": ("x", np.arange(N) + 0.5), "xs": ("xs", np.arange(N) + off), "y": ("y", np.arange(N) + 0.5),
              "ys": ("ys", np.arange(N) + off), "face": ("face", np.arange(T.nf))}
    for e, n in desc["extra"].items():
        coords[e] = (e, np.arange(n) * 1.0)
    # a fifth of the grids also have a vertical axis that takes no part in the links and that the (surface) vector
    # components do not span
    with_z = desc["dseed"] % 5 == 2
    if with_z:
        coords["z"] = ("z", np.arange(3) + 0.5)
        coords["zl"] = ("zl", np.arange(3) * 1.0)
    ds = xr.Dataset(coords=coords)
    cm = {"X": {"center": "x", stag: "xs"}, "Y": {"center": "y", stag: "ys"}}
    if with_z:
        cm["Z"] = {"center": "z", "left": "zl"}
    rule, fv = desc["rule"], desc["fill"]
    if mixed and not float(fv).is_integer():
        fv = 4.0  # integer-typed data only with integer-valued fills (numpy casts the fill to the array's dtype; not stated)
    t_listed = linktable.listed_in_order(t, desc["dseed"]) if desc["dseed"] % 2 else t
    g = Grid(ds, coords=cm, face_connections={"face": linktable.spelled(t_listed, desc["dseed"] // 2)}, periodic=False, boundary=dict(rule, **({"Z": "extend"} if with_z else {})),
             fill_value=fv, autoparse_metadata=False)

    def comp_arrays(scale):
        # own-side component (what the user holds) and opposite-side component (the truth on the other edge)
        own = {a: np.stack([T.local_component(Ue * scale, Ve * scale, f, a, side) for f in range(T.nf)]) for a in "XY"}
        opp = {a: np.stack([T.local_component(Ue * scale, Ve * scale, f, a, -side) for f in range(T.nf)]) for a in "XY"}
        return own, opp

    owns, opps = zip(*[comp_arrays(1.0 + k) for k in range(nlead)])
    u_full = np.stack([o["X"] for o in owns]).reshape(tuple(lead) + (T.nf, N, N))
    v_full = np.stack([o["Y"] for o in owns]).reshape(tuple(lead) + (T.nf, N, N))
    nm_u = {"face": "face", "Ydim": "y", "Xdim": "xs"}
    nm_v = {"face": "face", "Ydim": "ys", "Xdim": "x"}
    u = xr.DataArray(u_full, dims=ex + ["face", "y", "xs"]).transpose(*[nm_u.get(d, d) for d in desc["order"]])
    # the two components need not be stored alike: in a third of the cases the partner has its own dimension order
    order_v = list(desc["order"])
    if desc["dseed"] % 3 == 1:
        np.random.default_rng(desc["dseed"]).shuffle(order_v)
    v = xr.DataArray(v_full, dims=ex + ["face", "ys", "x"]).transpose(*[nm_v.get(d, d) for d in order_v])
    a = desc["comp"]
    op = desc["op"]
    fop = stencil.OPS[op]
    swapped = any(lk and lk[1] != ax for d in t.values() for ax, lr in d.items() for lk in lr)
    crossed = set()

    def expected(k, a):
        own, opp = owns[k][a], opps[k][a]
        exp = np.empty((T.nf, N, N))
        for f in range(T.nf):
            for j in range(N):
                for i in range(N):
                    idx = i if a == "X" else j
                    here = own[f, j, i]
                    # the other edge of this cell along the local axis
                    edge_inside = (idx + 1 < N) if side == -1 else (idx - 1 >= 0)
                    s = 1 if side == -1 else 0  # which end of the face the outer edge lies on
                    if edge_inside:
                        there = opp[f, j, i]
                    else:
                        lk = t[f][a][s]
                        if lk is not None:
                            crossed.add(("right" if s else "left", "same" if lk[1] == a else "swapped"))
                            there = opp[f, j, i] * (1.25 if (mixed and lk[1] != a) else 1.0)
                        else:
                            crossed.add(("open", rule[a]))
                            if rule[a] == "fill":
                                there = fv
                            elif rule[a] == "extend":
                                there = here
                            else:
                                there = own[f, j, 0 if side == -1 else N - 1] if a == "X" else own[f, 0 if side == -1 else N - 1, i]
                    l, rr = (here, there) if side == -1 else (there, here)
                    exp[f, j, i] = fop(l, rr)
        return exp

    exps = [expected(k, a) for k in range(nlead)]
    links = sorted(k for k in crossed if k[0] != "open")
    ckey = (desc["family"], (Kx, Ky), per, swapped, a, op, stag, N, sorted(k for k in crossed if k[0] == "open"))
    ctx.judged(ckey, bool(links))
    for k in links:
        ctx.note("link_kinds_crossed", k)
    ctx.note("topologies_run", (Kx, Ky, per, tuple(desc["orients"])))
    comp = {"X": u, "Y": v}
    oth = "Y" if a == "X" else "X"
    if mixed:
        comp[a] = comp[a].astype("int64")
        comp[oth] = comp[oth] * 1.25
        ctx.count("cases_with_integer_component_and_fractional_partner")
    use_2d = desc["dseed"] % 4 == 0
    try:
        if use_2d:
            # the two-component wrappers: both components in one dictionary (listed in either order), a dictionary back
            vec = {a: comp[a], oth: comp[oth]} if desc["dseed"] % 8 == 0 else {oth: comp[oth], a: comp[a]}
            both = getattr(g, op + "_2d_vector")(vec, to="center")
            r_ = both[a]
            ctx.count("calls_through_2d_vector_wrappers")
        else:
            r_ = getattr(g, op)({a: comp[a]}, a, other_component={oth: comp[oth]}, to="center")
    except Exception as e:
        ctx.violation("well-posed-call-returns", f"{op}{'_2d_vector' if use_2d else ''}({{{a}: comp}}, other_component) raised {type(e).__name__}: {str(e)[:250]}")
        return
    if ctx.evaluations % 40 == 1:
        ctx.sample({"case": desc, "swapped_links": swapped})
    canon = ex + ["face", "y", "x"]
    if set(r_.dims) != set(canon):
        ctx.violation("result-dims", f"dims {r_.dims}, expected (any order) {canon}")
        return
    R = r_.transpose(*canon).values.reshape((-1, T.nf, N, N))
    for k in range(nlead):
        if not np.array_equal(R[k], exps[k]):
            w = tuple(np.argwhere(R[k] != exps[k])[0])
            ctx.violation("vector-across-links", f"{op} of component {a} ({stag}) on {Kx}x{Ky} faces N={N} periodic={per} orientations {desc['orients']}: "
                                                f"face {w[0]} cell (j={w[1]}, i={w[2]}) = {R[k][w]}, true edge values give {exps[k][w]}")
            return
    if use_2d:
        exps_o = [expected(k, oth) for k in range(nlead)]
        Ro = both[oth].transpose(*canon).values.reshape((-1, T.nf, N, N))
        for k in range(nlead):
            if not np.array_equal(Ro[k], exps_o[k]):
                w = tuple(np.argwhere(Ro[k] != exps_o[k])[0])
                ctx.violation("vector-across-links", f"{op}_2d_vector: component {oth} on {Kx}x{Ky} faces N={N} orientations {desc['orients']}: face {w[0]} cell "
                                                    f"(j={w[1]}, i={w[2]}) = {Ro[k][w]}, true edge values give {exps_o[k][w]}")
                return
    # discrete divergence == that of the undivided field (fully linked domains only)
    if op == "diff" and per and not mixed:
        ctx.judged(("divergence",) + tuple(ckey[1:4]) + (stag, N), True)
        try:
            du = g.diff({"X": u}, "X", other_component={"Y": v})
            dv = g.diff({"Y": v}, "Y", other_component={"X": u})
            got = (du + dv).transpose(*canon).values.reshape((-1, T.nf, N, N))
            for k in range(nlead):
                sc = 1.0 + k
                div = (Ue[:, 1:] - Ue[:, :-1]) * sc + (Ve[1:, :] - Ve[:-1, :]) * sc
                if not np.array_equal(got[k], T.cut(div)):
                    ctx.violation("divergence-of-undivided-field", f"diff(u,X)+diff(v,Y) differs from the cut of the global divergence; {Kx}x{Ky} N={N} orientations {desc['orients']}")
                    return
        except Exception as e:
            ctx.violation("divergence-of-undivided-field", f"raised {type(e).__name__}: {str(e)[:200]}")


def run_simple(ctx, desc):
    import xarray as xr
    from xgcm import Grid

    layout = desc["layout"]
    cm = gen.layout_coords(layout)
    extra = {"time": 2} if desc["extra_time"] else {}
    ds = gen.build_ds(layout, extra=extra)
    ctor = {k: v for k, v in desc["ctor"].items() if v is not None or k == "periodic"}
    kw = {}
    if desc["one_face"] and not (desc["with_other"] and desc["other_axis"]):
        desc = dict(desc, one_face=False)
    if desc["one_face"]:
        ds = ds.assign_coords(face=("face", [0]))
        kw["face_connections"] = {"face": {0: {a["name"]: (None, None) for a in layout["axes"]}}}
    g = Grid(ds, coords=cm, autoparse_metadata=False, **ctor, **kw)
    a, frm, op = desc["axis"], desc["from"], desc["op"]
    dims = [cm[a][frm]] + list(extra) + (["face"] if desc["one_face"] else [])
    oa = desc["other_axis"]
    if oa:
        dims.append(cm[oa]["center"])
    shape = [ds.sizes[d] for d in dims]
    u = xr.DataArray(gen.quarter_data(desc["dseed"], shape), dims=dims, name="u")
    oc = None
    if desc["with_other"] and oa:
        op_other = [p for p in cm[oa] if p != "center"][0]
        odims = [cm[a]["center"]] + list(extra) + (["face"] if desc["one_face"] else []) + [cm[oa][op_other]]
        oc = {oa: xr.DataArray(gen.quarter_data(desc["dseed"] + 1, [ds.sizes[d] for d in odims]), dims=odims, name="v")}
    call = dict(desc["call"])
    if desc["to_given"]:
        call["to"] = "center"
    rule = resolve.in_force(a, desc["ctor"], desc["call"])[0]
    ckey = ("no-face-connections", frm, op, rule, oc is not None, desc["one_face"])
    ctx.judged(ckey, True)
    try:
        want = getattr(g, op)(u, a, **call)
    except Exception as e:
        ctx.violation("scalar-form-returns", f"{op}(u) raised {type(e).__name__}: {str(e)[:200]}")
        return
    try:
        kw2 = dict(call)
        if oc is not None:
            kw2["other_component"] = oc
        got = getattr(g, op)({a: u}, a, **kw2)
    except Exception as e:
        ctx.violation("vector-form-equals-scalar-form", f"{op}({{{a!r}: u}}, {frm}->center, other_component={'given' if oc else 'None'}) raised "
                                                       f"{type(e).__name__}: {str(e)[:200]} (scalar form works)")
        return
    if tuple(got.dims) != tuple(want.dims) or not np.array_equal(got.values, want.values):
        ctx.violation("vector-form-equals-scalar-form", f"{op} {frm}->center: vector form differs from passing the component alone")
