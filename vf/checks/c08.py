"""C08 - linear and log transforms are exact piecewise-linear interpolation per column."""
import math

import numpy as np

from .. import gen
from ..models import transform as tm

ID = "C08"
NEEDS_SHIM = True
BUDGET = {"quick": 2000, "thorough": 200000}
MIN_EVALS = {"quick": 2000, "thorough": 40000}
ASSUMPTIONS = ["numba is absent: xgcm.transform is imported with the pure-Python guvectorize stand-in /verif/vf/shim/numba"]
RULE = (
    "seeded random columns: length 2-8, strictly monotonic target_data per column (direction may differ between columns) "
    "from a quarter-integer lattice (positive for 'log'), 1-6 target levels in any order placed inside, outside, exactly "
    "on nodes and on the end values; mask_edges x bypass_checks (bypass only with increasing data); via the kernel "
    "interp_1d_linear and via Grid.transform(method linear/log) with the target as bare array, 1-D DataArray or N-D "
    "DataArray + target_dim, 0-2 extra dims in random order, eager and dask-chunked over non-axis dims (synchronous / "
    "threaded scheduler), target_data given or omitted (= the grid's own coordinate; input with or without that coordinate), default and custom suffix, named and unnamed input. Oracle: own bracketing search + exact "
    "rational linear formula (rtol 1e-12; log 1e-9), NaN iff outside and mask_edges, nearest end value otherwise; new "
    "dimension named after target / target_data; result name = input name + suffix; the caller's (writable) data, "
    "target_data and target arrays are byte-identical after the call and an immediate second identical call returns the same. Class = (path, method, direction mix, "
    "mask_edges, bypass, target kind, level placement mix, dask); non-trivial iff some level lies strictly inside a "
    "bracket or outside the range."
)
REQUIRED_REACH = ["xgcm.transform._interp_1d_linear", "xgcm.transform.interp_1d_linear", "xgcm.transform.linear_interpolation",
                  "xgcm.transform.transform"]


def gen_case(rng, i, tier):
    n = rng.randint(2, gen.deep(rng, tier, 8, 16))
    ncol = rng.randint(1, 3)
    method = rng.choice(["linear", "linear", "log"])
    decimal = rng.random() < 0.25  # tenths are not representable in binary (nor the same in float32 and float64)
    if decimal:
        lat = [x / 10 for x in range(1, 150)] if method == "log" else [x / 10 for x in range(-75, 76)]
    else:
        lat = [x / 4 for x in range(1, 60)] if method == "log" else [x / 4 for x in range(-30, 31)]
    # target_data may be integer-typed (pressure in whole hPa): then every profile value is a whole number
    td_int = (not decimal) and rng.random() < 0.15
    if td_int:
        lat = [float(x) for x in (range(1, 40) if method == "log" else range(-20, 21))]
    bypass = rng.random() < 0.25
    cols, dirs = [], []
    for _ in range(ncol):
        vals = sorted(rng.sample(lat, n))
        dec = (not bypass) and rng.random() < 0.5
        cols.append(vals[::-1] if dec else vals)
        dirs.append("dec" if dec else "inc")
    m = rng.randint(1, 6)
    tkind = rng.choice(["ndarray", "dataarray", "nd-target"])
    nlev_sets = ncol if tkind == "nd-target" else 1
    levels, places = [], set()
    for s in range(nlev_sets):
        ref = cols[s % ncol]
        lo, hi = min(ref), max(ref)
        ls = []
        for _ in range(m):
            k = rng.random()
            if k < 0.3:
                v = rng.choice(ref); places.add("node")
            elif k < 0.4:
                v = rng.choice([lo, hi]); places.add("end")
            elif k < 0.47:
                # barely outside the range: the neighbouring floating-point number of an end, or an end moved by a few
                # parts in 10**7 / 10**9 - outside is outside, however close
                import math

                end, sgn = (lo, -1) if rng.random() < 0.5 else (hi, 1)
                how = rng.choice(["ulp", "1e-7", "1e-9"])
                v = math.nextafter(end, sgn * math.inf) if how == "ulp" else end + sgn * abs(end if end else 1.0) * float(how)
                places.add("barely-outside")
            elif k < 0.6:
                v = (lo - rng.choice([0.25, 1, 3])) if rng.random() < 0.5 else (hi + rng.choice([0.25, 2])); places.add("outside")
                if method == "log" and v <= 0:
                    v = lo / 2
            else:
                v = rng.choice([x for x in lat if lo <= x <= hi] or [lo]) + rng.choice([0, 0.125, 0.0625] if not decimal else [0, 0.03, 0.007]); places.add("inside")
            ls.append(v)
        levels.append(ls)
    extra = {e: rng.randint(1, 2) for e in rng.sample(["time", "ens"], rng.choice([0, 0, 1, 2]))}
    # target_data may be omitted: the data is then interpolated against the grid's own coordinate of the axis (the same
    # profile for every column), whether or not the input carries that coordinate itself
    omit = tkind != "nd-target" and rng.random() < 0.15
    if omit:
        cols, dirs = [cols[0]] * ncol, [dirs[0]] * ncol
    return {"omit_td": omit, "carry_coord": rng.random() < 0.5, "n": n, "cols": cols, "dirs": dirs, "method": method, "levels": levels, "places": sorted(places),
            "mask_edges": rng.random() < 0.6, "bypass": bypass, "tkind": tkind, "extra": extra,
            "path": rng.choice(["kernel", "grid", "grid"]), "dseed": rng.getrandbits(31), "order_seed": rng.getrandbits(8),
            "dask": rng.choice([None, None, "synchronous", "threads"]),
            "suffix": rng.choice([None, None, "_on_rho", ""]), "name": rng.choice(["foo", "temp", None, "temp_transformed", "sal_on_rho"]),
            "tdname": rng.choice(["dens", "sigma0", None]), "extra_pos": rng.sample(["left", "outer"], rng.choice([0, 1])),
            "dtype": rng.choice(["float64"] * 7 + ["int64", "float32", "float32"]), "decimal": decimal, "td_int": td_int,
            # a DataArray target may carry coordinate labels along its own dimension (level numbers, names of surfaces ...)
            # that are not its values, and a scalar coordinate: the levels are its values
            "tlabels": rng.choice([None, "index", "other", "other+scalar"])}


def model_column(xs, ys, levels, mask, log):
    out = []
    strict_inside = False
    for lv in levels:
        if log:
            v, node = tm.linear_interp([math.log(x) for x in xs], ys, math.log(lv), mask)
        else:
            v, node = tm.linear_interp(xs, ys, lv, mask)
        strict_inside |= not node
        out.append(v)
    return np.array(out, float), strict_inside


def compare(got, exp, log):
    rtol = 1e-9 if log else 1e-12
    return got.shape == exp.shape and np.array_equal(np.isnan(got), np.isnan(exp)) and np.allclose(got, exp, rtol=rtol, atol=1e-12, equal_nan=True)


def run_case(ctx, desc):
    n, cols, method = desc["n"], desc["cols"], desc["method"]
    ncol = len(cols)
    log = method == "log"
    mask, bypass = desc["mask_edges"], desc["bypass"]
    ex = list(desc["extra"])
    lead = [desc["extra"][e] for e in ex]
    data = gen.quarter_data(desc["dseed"], tuple(lead) + (ncol, n))
    dt = desc.get("dtype", "float64")
    if dt == "int64":
        data = np.round(data).astype("int64")  # integer-typed data (counts); the levels stay fractional
    elif dt == "float32":
        data = data.astype("float32")  # quarter-integers are exact in float32; target_data and levels stay float64
    feats = (desc["path"] + ("-td-omitted" if desc.get("omit_td") and desc["path"] == "grid" else ""), dt, desc.get("decimal", False), method, "".join(sorted(set(desc["dirs"]))), mask, bypass, desc["tkind"] + ("-labelled" if desc.get("tlabels") and desc["tkind"] != "ndarray" else ""), desc["places"], desc["dask"] if desc["path"] == "grid" else None)
    nontrivial = any(p in ("inside", "outside") for p in desc["places"])
    ctx.judged(feats, nontrivial)
    if ctx.evaluations % 60 == 1:
        ctx.sample(desc)
    theta = np.array(cols, float)
    if desc.get("td_int"):
        theta = theta.astype("int64")
    if desc["path"] == "kernel":
        import xgcm.transform as T

        lv = np.array(desc["levels"][0], float)
        # the caller's own (writable) arrays: they must come back untouched, and the same call again gives the same
        th_in = np.broadcast_to(theta, data.shape).copy()
        keep = (data.copy(), th_in.copy(), lv.copy())
        try:
            out = T.interp_1d_linear(data, th_in, lv, mask_edges=mask, bypass_checks=bypass, logarithmic=log)
            again = T.interp_1d_linear(data, th_in, lv, mask_edges=mask, bypass_checks=bypass, logarithmic=log)
        except Exception as e:
            ctx.violation("kernel-returns", f"interp_1d_linear raised {type(e).__name__}: {str(e)[:200]}")
            return
        ctx.judged(("inputs-untouched", "kernel", method), True)
        for nm, now, was in zip(("phi", "theta", "target levels"), (data, th_in, lv), keep):
            if not np.array_equal(now, was):
                ctx.violation("inputs-untouched", f"kernel {method}: the caller's {nm} array was modified by the call")
                return
        if not np.array_equal(np.asarray(out), np.asarray(again), equal_nan=True):
            ctx.violation("inputs-untouched", f"kernel {method}: the same call on the same arrays gives a different result the second time")
            return
        flat = np.asarray(out, float).reshape((-1, ncol, len(lv)))
        dflat = data.astype(float).reshape((-1, ncol, n))
        for k in range(flat.shape[0]):
            for c in range(ncol):
                exp, _ = model_column(cols[c], dflat[k, c], lv, mask, log)
                if not compare(flat[k, c], exp, log):
                    ctx.violation("piecewise-linear-interpolant", f"kernel {method} column {c} ({desc['dirs'][c]}): target_data {cols[c]} data {dflat[k, c].tolist()} "
                                                                   f"levels {lv.tolist()} mask_edges={mask} bypass={bypass}: got {flat[k, c].tolist()} expected {exp.tolist()}")
                    return
        # column independence: the N-D call equals per-column 1-D calls
        ctx.judged(("1d-vs-nd",) + feats[1:7], True)
        for c in range(ncol):
            o1 = T.interp_1d_linear(data.reshape((-1, ncol, n))[0, c], theta[c], lv, mask_edges=mask, bypass_checks=bypass, logarithmic=log)
            if not np.array_equal(np.asarray(o1), flat[0, c], equal_nan=True):
                ctx.violation("columns-independent", f"1-D call on column {c} differs from the same column inside the N-D call")
                return
        return
    run_grid(ctx, desc, data, theta, feats)


def run_grid(ctx, desc, data, theta, feats):
    import dask
    import xarray as xr
    from xgcm import Grid

    n, cols, method = desc["n"], desc["cols"], desc["method"]
    ncol = len(cols)
    log = method == "log"
    mask, bypass = desc["mask_edges"], desc["bypass"]
    dt = desc.get("dtype", "float64")
    ex = list(desc["extra"])
    pos = ["center"] + desc["extra_pos"]
    layout = {"axes": [{"name": "Z", "pos": [[p, f"z_{p[:2]}"] for p in pos], "n": n}]}
    ds = gen.build_ds(layout, extra=dict(desc["extra"], col=ncol))
    omit = desc.get("omit_td", False)
    if omit:
        ds = ds.assign_coords(z_ce=("z_ce", np.array(cols[0], float)))
    g = Grid(ds, coords=gen.layout_coords(layout), periodic=False, autoparse_metadata=False)
    dims = ex + ["col", "z_ce"]
    perm = [dims[k] for k in np.random.default_rng(desc["order_seed"]).permutation(len(dims))]
    da = xr.DataArray(data, dims=dims, name=desc["name"]).transpose(*perm)
    td = xr.DataArray(theta, dims=["col", "z_ce"], name=desc["tdname"])
    if omit and desc.get("carry_coord"):
        da = da.assign_coords(z_ce=ds["z_ce"])
    tkind = desc["tkind"]
    kw = {}
    if tkind == "ndarray":
        target = np.array(desc["levels"][0], float)
        newdim = "z_ce" if omit else (desc["tdname"] or "TRANSFORMED_DIMENSION")
    elif tkind == "dataarray":
        target = xr.DataArray(np.array(desc["levels"][0], float), dims=["lev"])
        newdim = "lev"
    else:
        target = xr.DataArray(np.array(desc["levels"], float), dims=["col", "lev"])
        newdim = "lev"
        kw["target_dim"] = "lev"
    tl = desc.get("tlabels")
    if tl and tkind != "ndarray":
        nl = target.sizes["lev"]
        target = target.assign_coords(lev=("lev", np.arange(nl) if tl == "index" else 1000.0 - 7.5 * np.arange(nl)))
        if tl.endswith("scalar"):
            target = target.assign_coords(reference_pressure=2000.0)
    if desc["suffix"] is not None:
        kw["suffix"] = desc["suffix"]
    if desc["dask"]:
        da = da.chunk({d: 1 for d in dims if d != "z_ce"})
        td = td.chunk({"col": 1})
    tdkw = {} if omit else {"target_data": td}
    keep = (data.copy(), theta.copy(), np.array(np.asarray(target), float))
    if (not omit) and desc.get("dseed", desc.get("seed", 0)) % 2 == 1:
        # the Grid has served before, for another target_data of the same name, dimensions and shape (the next time step):
        # every transform is computed from the target_data it is given
        try:
            other = (td * 2 + 1).rename(td.name)
            with dask.config.set(scheduler=desc["dask"] or "synchronous"):
                g.transform(da, "Z", target, method=method, mask_edges=mask, bypass_checks=bypass, target_data=other, **kw).compute()
        except Exception:
            ctx.count("warm_up_call_raised")
    try:
        with dask.config.set(scheduler=desc["dask"] or "synchronous"):
            r = g.transform(da, "Z", target, method=method, mask_edges=mask, bypass_checks=bypass, **tdkw, **kw)
            if desc["dask"] and not dask.is_dask_collection(r):
                ctx.violation("lazy-stays-lazy", "transform of dask-backed data returned an in-memory result")
                return
            r_lazy = r
            r = r.compute()
            if desc["dask"]:
                # what the lazy result announces (its dtype) is what it delivers, so that further lazy operations on it
                # (a sum over the new dimension) give what they give on the computed values
                ctx.judged(("lazy-result-consistent", method, dt), True)
                lazy_sum = r_lazy.sum(newdim if newdim in r_lazy.dims else r_lazy.dims[-1], skipna=False).compute()
                eager_sum = r.sum(newdim if newdim in r.dims else r.dims[-1], skipna=False)
                if r_lazy.dtype != r.dtype or not np.array_equal(np.asarray(lazy_sum.values, float), np.asarray(eager_sum.values, float), equal_nan=True):
                    ctx.violation("lazy-result-consistent", f"transform {method} of {dt} data, dask-chunked: the lazy result announces dtype {r_lazy.dtype} but computes to "
                                                            f"{r.dtype}; its lazy sum {np.ravel(lazy_sum.values)[:4].tolist()} vs the sum of the computed values {np.ravel(eager_sum.values)[:4].tolist()}")
                    return
    except Exception as e:
        ctx.violation("transform-returns", f"Grid.transform({method}, target {tkind}, dask={desc['dask']}) raised {type(e).__name__}: {str(e)[:250]}")
        return
    # the caller's arrays (data, target_data, target) come back untouched and a second identical call agrees
    ctx.judged(("inputs-untouched", "grid", method, bool(desc["dask"]), bool(ex)), True)
    for nm, now, was in zip(("data", "target_data", "target"), (data, theta, np.asarray(target)), keep):
        if not np.array_equal(np.asarray(now, float), was.astype(float)):
            ctx.violation("inputs-untouched", f"transform {method} (target {tkind}, dask={desc['dask']}): the caller's {nm} was modified by the call")
            return
    try:
        with dask.config.set(scheduler=desc["dask"] or "synchronous"):
            r2 = g.transform(da, "Z", target, method=method, mask_edges=mask, bypass_checks=bypass, **tdkw, **kw).compute()
        if r2.dims != r.dims or not np.array_equal(r2.values, r.values, equal_nan=True):
            ctx.violation("inputs-untouched", f"transform {method}: the same call on the same objects gives a different result the second time")
            return
    except Exception as e:
        ctx.violation("transform-returns", f"second identical Grid.transform call raised {type(e).__name__}: {str(e)[:200]}")
        return
    if newdim not in r.dims:
        ctx.violation("new-dimension-name", f"result dims {r.dims}; the new dimension should be named {newdim!r} (target kind {tkind}, target_data name {desc['tdname']!r})")
        return
    if ("z_ce" in r.dims and newdim != "z_ce") or set(r.dims) != set(ex + ["col", newdim]):
        ctx.violation("result-dims", f"result dims {r.dims}, expected {ex + ['col', newdim]} in some order")
        return
    want_name = None if desc["name"] is None else desc["name"] + ("_transformed" if desc["suffix"] is None else desc["suffix"])
    if desc["name"] is not None and r.name != want_name:
        ctx.violation("result-name", f"result name {r.name!r}, expected {want_name!r} (input {desc['name']!r}, suffix {desc['suffix']!r})",
                      mechanism=None)
        return
    got = np.asarray(r.transpose(*ex, "col", newdim).values, float).reshape((-1, ncol, r.sizes[newdim]))
    dflat = data.astype(float).reshape((-1, ncol, n))
    for k in range(got.shape[0]):
        for c in range(ncol):
            lv = desc["levels"][c if tkind == "nd-target" else 0]
            exp, _ = model_column(cols[c], dflat[k, c], lv, mask, log)
            if not compare(got[k, c], exp, log):
                ctx.violation("piecewise-linear-interpolant", f"transform {method} column {c} ({desc['dirs'][c]}), target {tkind}: target_data {cols[c]} "
                                                               f"data {dflat[k, c].tolist()} levels {lv} mask_edges={mask} bypass={bypass}: got {got[k, c].tolist()} expected {exp.tolist()}")
                return
