"""C07 - the conservative transform neither creates nor destroys the transformed quantity."""
import numpy as np

from .. import gen
from ..models import transform as tm

ID = "C07"
NEEDS_SHIM = True
BUDGET = {"quick": 2400, "thorough": 200000}
MIN_EVALS = {"quick": 2500, "thorough": 80000}
ASSUMPTIONS = ["numba is absent: xgcm.transform is imported with the pure-Python guvectorize stand-in /verif/vf/shim/numba, "
               "so the kernel's Python semantics and all wrapper code are observed, not numba's code generation"]
RULE = (
    "seeded random columns: n in 1..7 cells, target_data on the n+1 bounds drawn from a half-integer lattice (monotonic or "
    "not, repeated values = homogeneous cells, values exactly on bin edges), 1-5 strictly monotonic bins (increasing or "
    "decreasing) from the same lattice, 1-3 columns with different profiles. The whole weight matrix of every column is "
    "extracted from the real kernel by passing the identity as data over a leading dimension and, separately, by n true "
    "1-D calls; compared with exact rational overlap weights (1e-12); a homogeneous cell must put weight 1 into exactly "
    "one bin containing it (target_data and bins are handed over times 2**e, e in {0, -43, -60, 30, 100}: an exact scaling); column sums are 1 when the cell lies within the bins; weights >= 0; merging two adjacent bins "
    "adds their rows; reversed bins reverse the rows. Grid.transform(method='conservative') is run with target_data on "
    "outer, on center (bounds = model interp with extension) or omitted (= the grid's own outer coordinate), random extra dims/order, eagerly and dask-chunked over "
    "non-axis dims under synchronous and threaded schedulers, in half of the cases after the same Grid has transformed against another target_data of the same name and shape, and compared with W applied to the data; the caller's data, "
    "target_data and bins are byte-identical afterwards and an immediate second call returns the same. Class = (path, n, "
    "#bins, direction, #columns, has homogeneous cell, has value on a bin edge, inside span); non-trivial iff some cell "
    "overlaps two bins or is homogeneous."
)
REQUIRED_REACH = ["xgcm.transform._interp_1d_conservative", "xgcm.transform.interp_1d_conservative",
                  "xgcm.transform.conservative_interpolation", "xgcm.transform.transform"]
LAT = [x / 2 for x in range(-4, 13)]


def gen_case(rng, i, tier):
    n = rng.randint(1, gen.deep(rng, tier, 7, 14))
    m = rng.randint(1, 5)
    bins = sorted(rng.sample(LAT, m + 1))
    inside = rng.random() < 0.7
    pool = [x for x in LAT if bins[0] <= x <= bins[-1]] if inside else LAT
    ncol = rng.randint(1, 3)
    style = rng.choice(["random", "monotonic", "plateaus"])
    thetas = []
    for _ in range(ncol):
        th = [rng.choice(pool) for _ in range(n + 1)]
        if style == "monotonic":
            th = sorted(th, reverse=rng.random() < 0.5)
        elif style == "plateaus":
            for k in range(1, n + 1):
                if rng.random() < 0.4:
                    th[k] = th[k - 1]
        thetas.append(th)
    tdtype = rng.choice(["float64"] * 7 + ["int64", "int64", "float32"])
    if tdtype == "int64":
        # integer-typed target_data (an integer depth coordinate, say) while the bin edges stay fractional
        thetas = [[float(int(v)) for v in th] for th in thetas]
    return {"n": n, "bins": bins, "decreasing": rng.random() < 0.4, "thetas": thetas, "inside": inside, "tdtype": tdtype,
            "scale_exp": 0 if tdtype == "int64" else rng.choice([0] * 6 + [-43, -60, 30, 100]),
            "path": rng.choice(["kernel", "kernel", "grid-outer", "grid-center"]), "dseed": rng.getrandbits(31),
            "extra_pos": rng.sample(["left", "right", "inner"], rng.choice([0, 0, 1, 2])),
            "order_seed": rng.getrandbits(8), "dask": rng.choice([None, None, "synchronous", "threads"]),
            "target_as": rng.choice(["ndarray", "dataarray"]), "merge_at": rng.randrange(1, m) if m > 1 else None}


def check_matrix(ctx, desc, got, theta, bins, label):
    """got[j][i] weights observed; compare with the model."""
    W, amb = tm.conservative_weights(theta, bins)
    n, m = len(theta) - 1, len(bins) - 1
    for i in range(n):
        col = [float(got[j][i]) for j in range(m)]
        if amb[i] is not None:
            ones = [j for j in range(m) if col[j] == 1.0]
            rest = [col[j] for j in range(m) if col[j] != 1.0]
            if amb[i]:
                ok = len(ones) == 1 and ones[0] in amb[i] and all(v == 0.0 for v in rest)
            else:
                ok = not ones and all(v == 0.0 for v in rest)
            if not ok:
                mech = None
                ctx.violation("homogeneous-cell-in-exactly-one-bin", f"{label}: cell {i} has theta {theta[i]} on both bounds; bins {bins}; "
                                                                     f"weights {col}, allowed: weight 1 in one of bins {amb[i]}", mechanism=mech)
                return False
            continue
        exp = [float(W[j][i]) for j in range(m)]
        if not np.allclose(col, exp, rtol=0, atol=1e-12):
            ctx.violation("overlap-weights", f"{label}: cell {i} theta ({theta[i]}, {theta[i + 1]}) bins {bins}: weights {col}, exact overlap {exp}")
            return False
        if any(v < 0 for v in col):
            ctx.violation("nonnegative-weights", f"{label}: negative weight {col}")
            return False
        if tm.inside_span(theta[i], theta[i + 1], bins) and abs(sum(col) - 1.0) > 1e-12:
            ctx.violation("column-sum-conserved", f"{label}: cell {i} within the bins but its weights sum to {sum(col)}")
            return False
    return True


def features(desc):
    bins = desc["bins"]
    homog = any(a == b for th in desc["thetas"] for a, b in zip(th[:-1], th[1:]))
    onedge = any(v in bins for th in desc["thetas"] for v in th)
    return (desc["path"], desc["n"], len(bins) - 1, "dec" if desc["decreasing"] else "inc", len(desc["thetas"]), homog, onedge, desc["inside"],
            desc.get("tdtype", "float64"), desc.get("scale_exp", 0))


def run_case(ctx, desc):
    import xgcm.transform as T

    n, bins, thetas = desc["n"], desc["bins"], desc["thetas"]
    ncol = len(thetas)
    m = len(bins) - 1
    # target_data and bins are handed over multiplied by a power of two (an exact operation in binary floating point, so
    # every overlap fraction is unchanged): tracers of magnitude 1e-13 or 1e9 are redistributed like those of magnitude 1
    SC = 2.0 ** desc.get("scale_exp", 0)
    b = (np.array(bins[::-1] if desc["decreasing"] else bins, float) * SC)
    nontrivial = m > 1 or features(desc)[5]
    if desc["path"].startswith("grid"):
        return run_grid(ctx, desc, nontrivial)
    ctx.judged(features(desc), nontrivial)
    phi = np.broadcast_to(np.eye(n)[:, None, :], (n, ncol, n)).copy()  # [unit i, column, cell]
    th = np.broadcast_to((np.array(thetas, float) * SC)[None], (n, ncol, n + 1)).copy().astype(desc.get("tdtype", "float64"))
    keep = (phi.copy(), th.copy(), b.copy())
    try:
        out = T.interp_1d_conservative(phi, th, b)  # [unit i, column, bin]
        again = T.interp_1d_conservative(phi, th, b)
    except Exception as e:
        ctx.violation("kernel-returns", f"interp_1d_conservative raised {type(e).__name__}: {str(e)[:200]}")
        return
    # the caller's (writable) arrays come back untouched and the same call again gives the same
    ctx.judged(("inputs-untouched", "kernel", desc["decreasing"]), True)
    for nm, now, was in zip(("phi", "theta", "bins"), (phi, th, b), keep):
        if not np.array_equal(now, was):
            ctx.violation("inputs-untouched", f"kernel: the caller's {nm} array was modified by the call")
            return
    if not np.array_equal(np.asarray(out), np.asarray(again), equal_nan=True):
        ctx.violation("inputs-untouched", "kernel: the same call on the same arrays gives a different result the second time")
        return
    if out.shape != (n, ncol, m):
        ctx.violation("output-shape", f"shape {out.shape}, expected {(n, ncol, m)}")
        return
    if ctx.evaluations % 60 == 1:
        ctx.sample(desc)
    for c in range(ncol):
        got = out[:, c, :].T  # [bin, cell]
        if desc["decreasing"]:
            got = got[::-1]
        if not check_matrix(ctx, desc, got, thetas[c], bins, f"N-D call, column {c}, bins {'decreasing' if desc['decreasing'] else 'increasing'}"):
            return
    # the same through n true 1-D calls per column (the 1-D code path)
    ctx.judged(("1d-calls",) + features(desc)[1:], nontrivial)
    for c in range(ncol):
        rows = []
        for i in range(n):
            e = np.zeros(n)
            e[i] = 1.0
            try:
                o = T.interp_1d_conservative(e, (np.array(thetas[c], float) * SC).astype(desc.get("tdtype", "float64")), b)
            except Exception as ex:
                ctx.violation("kernel-returns", f"1-D call raised {type(ex).__name__}: {str(ex)[:200]}")
                return
            rows.append(np.asarray(o)[::-1] if desc["decreasing"] else np.asarray(o))
        got = np.array(rows).T
        if not check_matrix(ctx, desc, got, thetas[c], bins, f"1-D calls, column {c}"):
            return
    # reversal: decreasing bins only reverse the output
    ctx.judged(("reversal",) + features(desc)[1:4], True)
    data = gen.quarter_data(desc["dseed"], (ncol, n))
    tharr = (np.array(thetas, float) * SC).astype(desc.get("tdtype", "float64"))
    try:
        inc = T.interp_1d_conservative(data, tharr, (np.array(bins, float) * SC))
        dec = T.interp_1d_conservative(data, tharr, (np.array(bins[::-1], float) * SC))
        if inc.shape != dec.shape or not np.allclose(dec[..., ::-1], inc, rtol=0, atol=1e-12):
            ctx.violation("decreasing-bins-reverse-output", f"{ncol} column(s): output for decreasing bins is not the reversed output for increasing bins")
            return
        if (data >= 0).all() and (inc < 0).any():
            ctx.violation("nonnegative-weights", "non-negative input gave a negative output")
            return
        # merging two adjacent bins sums their contents
        if desc["merge_at"] is not None:
            ctx.judged(("merge",) + features(desc)[1:4], True)
            k = desc["merge_at"]
            merged_bins = bins[:k] + bins[k + 1:]
            mo = T.interp_1d_conservative(data, tharr, (np.array(merged_bins, float) * SC))
            want = np.concatenate([inc[..., : k - 1], inc[..., k - 1: k] + inc[..., k: k + 1], inc[..., k + 1:]], -1)
            homog_on_edge = any(a == b2 == bins[k] for th in thetas for a, b2 in zip(th[:-1], th[1:]))
            if not np.allclose(mo, want, rtol=0, atol=1e-11):
                ctx.violation("merging-bins-adds", f"merging bins at edge {bins[k]}: {mo.tolist()} vs summed rows {want.tolist()} (homogeneous cell on that edge: {homog_on_edge})")
                return
    except Exception as ex:
        ctx.violation("kernel-returns", f"raised {type(ex).__name__}: {str(ex)[:200]}")


def run_grid(ctx, desc, nontrivial):
    import dask
    import xarray as xr
    from xgcm import Grid

    n, bins, thetas = desc["n"], desc["bins"], desc["thetas"]
    ncol = len(thetas)
    m = len(bins) - 1
    # target_data and bins are handed over multiplied by a power of two (an exact operation in binary floating point, so
    # every overlap fraction is unchanged): tracers of magnitude 1e-13 or 1e9 are redistributed like those of magnitude 1
    SC = 2.0 ** desc.get("scale_exp", 0)
    on_center = desc["path"] == "grid-center"
    # target_data may be omitted: the axis' own bounds coordinate (the same profile for every column) is then the target_data
    omit = (not on_center) and desc.get("tdtype", "float64") == "float64" and desc["dseed"] % 6 == 0
    if omit:
        thetas = [thetas[0]] * ncol
    pos = ["center", "outer"] + desc["extra_pos"]
    layout = {"axes": [{"name": "Z", "pos": [[p, f"z_{p[:2]}"] for p in pos], "n": n}]}
    ds = gen.build_ds(layout, extra={"col": ncol, "e": 2})
    if omit:
        ds = ds.assign_coords(z_ou=("z_ou", np.array(thetas[0], float) * SC))
    g = Grid(ds, coords=gen.layout_coords(layout), periodic=False, autoparse_metadata=False)
    data = gen.quarter_data(desc["dseed"], (2, ncol, n))
    if desc["dseed"] % 7 == 3:
        data = np.round(data).astype("int64")  # an integer-typed extensive quantity (counts per cell)
    dims = ["e", "col", "z_ce"]
    perm = [dims[k] for k in np.random.default_rng(desc["order_seed"]).permutation(3)]
    da = xr.DataArray(data, dims=dims, name="phi").transpose(*perm)
    if on_center:
        # n values on centres; the model's bounds are their interpolation to outer with nearest-value extension
        cvals = [th[:n] for th in thetas]
        td = xr.DataArray((np.array(cvals, float) * SC).astype(desc.get("tdtype", "float64") if desc.get("tdtype") != "int64" else "float64"), dims=["col", "z_ce"], name="dens")
        bounds = [[c[0]] + [(c[k - 1] + c[k]) / 2 for k in range(1, n)] + [c[-1]] for c in cvals]
    else:
        td = xr.DataArray((np.array(thetas, float) * SC).astype(desc.get("tdtype", "float64")), dims=["col", "z_ou"], name="dens")
        bounds = thetas
    b = (np.array(bins[::-1] if desc["decreasing"] else bins, float) * SC)
    target = b if desc["target_as"] == "ndarray" else xr.DataArray(b, dims=["dens_lev"], name="dens_lev")
    if desc["target_as"] != "ndarray" and desc["dseed"] % 3 != 0:
        # the bins may carry coordinate labels along their own dimension that are not their values (and a scalar coordinate)
        target = target.assign_coords(dens_lev=("dens_lev", np.arange(len(b)) if desc["dseed"] % 3 == 1 else 500.0 - 3.5 * np.arange(len(b))))
        if desc["dseed"] % 5 == 2:
            target = target.assign_coords(reference_level=0.0)
    # options documented as "only for method='linear' and 'log'" change nothing in the conservative method
    if desc["dseed"] % 4 == 2:
        tdkw_opts = {"bypass_checks": True}
    elif desc["dseed"] % 4 == 3:
        tdkw_opts = {"mask_edges": False, "bypass_checks": desc["dseed"] % 8 == 3}
    else:
        tdkw_opts = {}
    newdim = ("z_ou" if omit else "dens") if desc["target_as"] == "ndarray" else "dens_lev"
    feats = features(desc)
    ctx.judged(feats + (desc["dask"], bool(desc["extra_pos"]), omit, (not omit) and desc["dseed"] % 2 == 1, tuple(sorted(tdkw_opts.items())),
                        desc["target_as"] != "ndarray" and desc["dseed"] % 3 != 0), nontrivial)
    if desc["dask"]:
        da = da.chunk({"col": 1, "e": 1})
        if desc["dseed"] % 4 != 1:
            td = td.chunk({"col": 1})  # (in a quarter of the lazy cases the target_data stays in memory next to lazy data)
    tdkw = dict(tdkw_opts) if omit else dict(tdkw_opts, target_data=td)
    tdv = np.array(td.values)
    keep = (data.copy(), tdv.copy(), b.copy())
    warm = (not omit) and desc["dseed"] % 2 == 1
    if warm:
        # the Grid has been used before, for another tracer of the same name, dimensions and shape (the next time step):
        # every transform is computed from the target_data it is given
        try:
            other = td.roll(col=1, roll_coords=False) if ncol > 1 else td[..., ::-1]
            other = (other * 2 + 1).rename(td.name)
            with dask.config.set(scheduler=desc["dask"] or "synchronous"):
                r_other = g.transform(da, "Z", target, method="conservative", target_data=other)
                alone = r_other.compute()
                if desc["dask"]:
                    # ... and the two lazy results evaluated in one computation (a loop over time steps, then one compute)
                    # are what they are when evaluated one by one
                    r_main = g.transform(da, "Z", target, method="conservative", **tdkw)
                    j_other, j_main = dask.compute(r_other, r_main)
                    ctx.judged(("joint-compute", on_center, desc["dask"]), True)
                    if not (np.array_equal(j_other.values, alone.values, equal_nan=True) and np.array_equal(j_main.values, r_main.compute().values, equal_nan=True)):
                        ctx.violation("columns-independent", "two conservative transforms of the same data against target_data of the same name and shape but other values: "
                                                             "evaluated in one dask computation they differ from their separate evaluations")
                        return
        except Exception:
            ctx.count("warm_up_call_raised")
    try:
        with dask.config.set(scheduler=desc["dask"] or "synchronous"):
            r = g.transform(da, "Z", target, method="conservative", **tdkw)
            r_lazy = r
            r = r.compute()
            if desc["dask"]:
                # the lazy result announces the dtype it delivers: a lazy sum over the bins equals the sum of the computed bins
                ctx.judged(("lazy-result-consistent", str(data.dtype)), True)
                ls = r_lazy.sum(newdim if newdim in r_lazy.dims else r_lazy.dims[-1]).compute()
                es = r.sum(newdim if newdim in r.dims else r.dims[-1])
                if r_lazy.dtype != r.dtype or not np.array_equal(np.asarray(ls.values, float), np.asarray(es.values, float), equal_nan=True):
                    ctx.violation("lazy-result-consistent", f"conservative transform of {data.dtype} data, dask-chunked: the lazy result announces {r_lazy.dtype} and computes "
                                                            f"to {r.dtype}; lazy column sums {np.ravel(ls.values)[:4].tolist()} vs sums of the computed bins {np.ravel(es.values)[:4].tolist()}")
                    return
            r_again = g.transform(da, "Z", target, method="conservative", **tdkw).compute()
    except Exception as ex:
        ctx.violation("transform-returns", f"Grid.transform(conservative, target_data on {'center' if on_center else 'outer'}, positions {pos}, dask={desc['dask']}) "
                                           f"raised {type(ex).__name__}: {str(ex)[:250]}")
        return
    ctx.judged(("inputs-untouched", "grid", on_center, bool(desc["dask"])), True)
    for nm, now, was in zip(("data", "target_data", "target"), (data, np.asarray(td.values), np.asarray(target)), keep):
        if not np.array_equal(np.asarray(now, float), np.asarray(was, float)):
            ctx.violation("inputs-untouched", f"conservative transform: the caller's {nm} was modified by the call")
            return
    if r_again.dims != r.dims or not np.array_equal(r_again.values, r.values, equal_nan=True):
        ctx.violation("inputs-untouched", "conservative transform: the same call on the same objects gives a different result the second time")
        return
    if newdim not in r.dims or r.sizes[newdim] != m:
        ctx.violation("output-shape", f"result dims {dict(r.sizes)}, expected new dim {newdim} of size {m}")
        return
    got = r.transpose("e", "col", newdim).values
    if desc["decreasing"]:
        got = got[..., ::-1]
    for c in range(ncol):
        W, amb = tm.conservative_weights(bounds[c], bins)
        Wf = np.array([[float(x) for x in row] for row in W])
        hom = [i for i in range(n) if amb[i] is not None]
        for e in range(2):
            exp = Wf @ data[e, c]
            if not hom:
                if not np.allclose(got[e, c], exp, rtol=1e-12, atol=1e-12):
                    ctx.violation("transform-equals-weights-times-data", f"column {c}: {got[e, c].tolist()} vs W.data {exp.tolist()}; bounds {bounds[c]} bins {bins} "
                                                                          f"decreasing={desc['decreasing']} on_center={on_center}")
                    return
            else:
                # homogeneous cells may go to any one containing bin: compare the total and the non-homogeneous part
                tot_exp = exp.sum() + sum(data[e, c, i] for i in hom if amb[i])
                if abs(got[e, c].sum() - tot_exp) > 1e-10:
                    ctx.violation("column-sum-conserved", f"column {c}: output sum {got[e, c].sum()} vs input inside the bins {tot_exp}; bounds {bounds[c]} bins {bins}")
                    return
