"""C19 - outputs are labelled with the grid's coordinates for the new position."""
import numpy as np

from .. import gen

ID = "C19"
NEEDS_SHIM = False
BUDGET = {"quick": 2000, "thorough": 200000}
MIN_EVALS = {"quick": 3000, "thorough": 80000}
RULE = (
    "seeded random cases: grid dataset of 1-2 axes (a quarter of them two faces joined by same-axis or axis-swapping links, the input there a scalar or a vector component {axis: component} with its partner) with dimension coordinates on all, none or a random subset of the dimensions (with attributes), 0-5 random "
    "non-dimension coordinates (0-D/1-D/N-D on any mix of positions and an extra dim, with attributes), in 30% of the cases metrics registered from data variables (constructor or set_metrics), an input at a "
    "random position carrying the dataset's coordinates or none, one of diff/interp/min/max/cumsum over one or two axes "
    "with any of the 8 shifts (padded and unpadded paths), in-memory or (a quarter) dask-backed, keep_coords true/false/default. Verdicts: coordinate set of "
    "the result == {dataset coordinates fitting the result dims} (keep_coords) / {dimension coordinates} (otherwise); "
    "each attached coordinate equals the dataset's in values and attrs (compared by dimension name); no coordinate on "
    "the abandoned dimension; name kept; values identical when the input's labels are removed or scrambled. Class = "
    "(op, from, to, keep_coords, carry, dim coords everywhere/nowhere/mixed, #aux coords fitting); non-trivial iff the dataset has at least "
    "one coordinate that fits the result."
)
REQUIRED_REACH = ["xgcm.grid_ufunc._reattach_coords", "xgcm.padding._strip_all_coords", "xgcm.grid.Grid.cumsum"]


def gen_case(rng, i, tier):
    faces = rng.random() < 0.25
    if faces:
        # face-connected grid: two faces joined by an axis-swapping link, or side by side
        nax, n = 2, rng.randint(2, 3)
        layout = {"axes": [{"name": a, "pos": [["center", a.lower()], ["left", a.lower() + "l"]], "n": n} for a in ("X", "Y")]}
        fc = rng.choice([{"0": {"X": [None, [1, "Y", False]]}, "1": {"Y": [[0, "X", False], None]}},
                         {"0": {"X": [[1, "Y", False], None]}, "1": {"Y": [None, [0, "X", False]]}},
                         {"0": {"Y": [[1, "Y", False], None]}, "1": {"Y": [None, [0, "Y", False]]}},
                         {"0": {"X": [None, [1, "X", False]]}, "1": {"X": [[0, "X", False], None]}},
                         {"0": {"X": [[1, "X", False], [1, "X", False]], "Y": [[0, "Y", False], [0, "Y", False]]},
                          "1": {"X": [[0, "X", False], [0, "X", False]], "Y": [[1, "Y", False], [1, "Y", False]]}}])
    else:
        nax = rng.randint(1, 2)
        layout = gen.random_layout(rng, nax=nax, nmin=2, nmax=gen.deep(rng, tier, 4, 8), p=0.6, at_least=2)
        fc = None
    axn = [a["name"] for a in layout["axes"]]
    cm = gen.layout_coords(layout)
    alld = [d for a in axn for d in cm[a].values()] + (["face"] if faces else [])
    # dimension coordinates: everywhere, nowhere, or only on some of the dimensions
    k = rng.random()
    withdim = True if k < 0.45 else (False if k < 0.6 else [d for d in alld if rng.random() < 0.5])
    aux = []
    for k in range(rng.randint(0, 5)):
        nd = rng.randint(0, 3)
        dd = rng.sample(alld + ["time"], min(nd, len(alld) + 1))
        if any(sum(1 for d in dd if d in cm[a].values()) > 1 for a in axn):
            continue
        aux.append({"name": f"aux{k}", "dims": dd, "attrs": {"u": k} if rng.random() < 0.7 else {}})
    dim_attrs = {d: {"note": f"attr_{d}"} for d in alld if rng.random() < 0.5}
    vector = False
    k = 1 if nax == 1 or rng.random() < 0.7 else 2
    opax = rng.sample(axn, k)
    pos = {a: rng.choice(list(cm[a])) for a in axn}
    to = {a: (rng.choice([p for p in cm[a] if p != "center"]) if pos[a] == "center" else "center") for a in opax}
    if faces:
        pos = {a: "center" for a in axn}
        to = {a: "left" for a in opax}
        dims = [cm[a]["center"] for a in axn] + ["face"] + (["time"] if rng.random() < 0.6 else [])
        if rng.random() < 0.4:
            # a C-grid vector component {axis: component} (with its partner) moved from its own face to the centre
            vector = True
            opax = opax[:1]
            pos = {a: ("left" if a == opax[0] else "center") for a in axn}
            to = {opax[0]: "center"}
            dims = [cm[a][pos[a]] for a in axn] + ["face"] + (["time"] if rng.random() < 0.6 else [])
    else:
        dims = [cm[a][pos[a]] for a in axn if a in opax or rng.random() < 0.7] + (["time"] if rng.random() < 0.6 else [])
    rng.shuffle(dims)
    return {
        "layout": layout, "withdim": withdim, "aux": aux, "dim_attrs": dim_attrs, "time_coord": rng.random() < 0.7,
        "pos": pos, "dims": dims, "opax": opax, "to": to,
        # cumsum is not drawn on face-connected grids: it trims the array before padding, so faces are no longer
        # square and an axis-swapping link cannot be padded (outside what any of the properties states)
        "op": rng.choice(["diff", "interp"] if vector else ["diff", "interp", "min", "max"] if faces else ["diff", "interp", "min", "max", "cumsum"]),
        "vector": vector,
        "keep_coords": rng.choice([True, False, None]), "carry": rng.random() < 0.5,
        # the input may be called like a coordinate of the grid dataset (an interpolated longitude is still "lon") or like a dimension
        "name": rng.choice(["nm", "temperature", None] + ([rng.choice(aux)["name"]] * 2 if aux else []) + [rng.choice(alld)]), "boundary": rng.choice(["fill", "extend", "periodic"]),
        "dseed": rng.getrandbits(31), "fc": fc,
        # the grid may carry metrics registered from *data variables* of the dataset: they are not coordinates of the
        # dataset and never become labels of a result
        "metrics": rng.random() < 0.3,
        # the input may be dask-backed (chunked along the dimensions that are not operated on): same labels, same name
        "lazy": rng.random() < 0.25,
    }


def build(desc):
    from xgcm import Grid

    ds = gen.build_ds(desc["layout"], with_coords=desc["withdim"], extra=None)
    fc = desc.get("fc")
    if fc:
        ds = ds.assign_coords(face=("face", [0, 1])) if (desc["withdim"] is True or (desc["withdim"] not in (True, False) and "face" in desc["withdim"])) \
            else ds.assign(holder_face=(("face",), np.zeros(2)))
    sizes = dict(ds.sizes)
    sizes["time"] = 2
    if desc["time_coord"]:
        ds = ds.assign_coords(time=("time", [10.0, 20.0]))
    else:
        ds["holder_time"] = (("time",), np.zeros(2))
    for d, at in desc["dim_attrs"].items():
        if d in ds.coords:
            ds[d].attrs.update(at)
    for a in desc["aux"]:
        shp = [sizes[d] for d in a["dims"]]
        vals = np.arange(int(np.prod(shp)) if shp else 1, dtype=float).reshape(shp) + 100 * len(a["name"])
        ds = ds.assign_coords({a["name"]: (tuple(a["dims"]), vals, a["attrs"])})
    kw = {}
    if fc:
        kw["face_connections"] = {"face": {int(f): {a: tuple(None if l is None else (l[0], l[1], bool(l[2])) for l in lr) for a, lr in d.items()}
                                           for f, d in fc.items()}}
    if desc.get("metrics"):
        cm = gen.layout_coords(desc["layout"])
        mets = {}
        for a, ps in cm.items():
            names = []
            for p_, d in ps.items():
                ds["metric_" + d] = ((d,), np.arange(ds.sizes[d], dtype=float) + 1.0)
                names.append("metric_" + d)
            mets[(a,)] = names
        kw["metrics"] = mets
    g = Grid(ds, coords=gen.layout_coords(desc["layout"]), periodic=False, autoparse_metadata=False, **kw)
    if desc.get("metrics") and desc["dseed"] % 2:
        # ... or registered after construction
        a0 = sorted(mets)[0]
        g.set_metrics(a0, mets[a0], overwrite=True)
    return ds, g


def run_case(ctx, desc):
    import xarray as xr

    ds, g = build(desc)
    cm = gen.layout_coords(desc["layout"])
    dims = desc["dims"]
    shape = [ds.sizes[d] for d in dims]
    da = xr.DataArray(gen.quarter_data(desc["dseed"], shape), dims=dims, name=desc["name"])
    if desc.get("lazy"):
        opd = {cm[a][desc["pos"][a]] for a in desc["opax"]}
        da = da.chunk({d: (-1 if d in opd else 1) for d in da.dims})
    bare = da
    if desc["carry"]:
        da = da.assign_coords({c: v for c, v in ds.coords.items() if set(v.dims) <= set(dims)})
    op, opax, to = desc["op"], desc["opax"], desc["to"]
    kw = {"to": to if len(opax) > 1 else to[opax[0]], "boundary": desc["boundary"]}
    if desc["keep_coords"] is not None:
        kw["keep_coords"] = desc["keep_coords"]
    kc = bool(desc["keep_coords"])
    axarg = opax if len(opax) > 1 else opax[0]
    # the operation may be weighted by the registered metrics (an option of diff / interp / min / max / cumsum): the labelling
    # and the name of the result are those of the unweighted operation
    weighted = bool(desc.get("metrics")) and not desc.get("fc") and not desc.get("vector") and desc["dseed"] % 3 == 0
    if weighted:
        kw["metric_weighted"] = opax[0] if len(opax) == 1 and desc["dseed"] % 2 else {a: (a,) for a in opax}
    if desc.get("vector"):
        a0 = opax[0]
        oth = [a for a in cm if a != a0][0]
        odims = [{cm[a0]["left"]: cm[a0]["center"], cm[oth]["center"]: cm[oth]["left"]}.get(d, d) for d in dims]
        partner = xr.DataArray(gen.quarter_data(desc["dseed"] + 5, [ds.sizes[d] for d in odims]), dims=odims, name="partner_component")
        if desc["dseed"] % 2:
            # the partner may carry labels of its own on the face dimension (a permutation of the face numbers): labels of
            # an input never decide which values are used
            partner = partner.assign_coords(face=("face", np.arange(ds.sizes["face"])[::-1]))

        def run(x, partner=partner):
            return getattr(g, op)({a0: x}, a0, other_component={oth: partner}, **kw)
    else:
        def run(x):
            return getattr(g, op)(x, axarg, **kw)
    rdims = [{cm[a][desc["pos"][a]]: cm[a][to[a]] for a in opax}.get(d, d) for d in dims]
    expc = {c for c, v in ds.coords.items() if set(v.dims) <= set(rdims) and (kc or c in rdims)}
    ckey = (op, (("faces-vector" if desc.get("vector") else "faces") if desc.get("fc") else "simple") + ("+metrics" if desc.get("metrics") else "") + ("+weighted" if weighted else "") + ("+lazy" if desc.get("lazy") else ""), [(desc["pos"][a], to[a]) for a in opax], desc["keep_coords"], desc["carry"], desc["withdim"] if isinstance(desc["withdim"], bool) else "mixed",
            min(3, len(expc)))
    ctx.judged(ckey, len(expc) > 0)
    try:
        r = run(da)
    except Exception as e:
        ctx.violation("well-posed-call-returns", f"{op} raised {type(e).__name__}: {str(e)[:200]}")
        return
    if ctx.evaluations % 60 == 1:
        ctx.sample({"case": desc, "expected_coords": sorted(expc)})
    got = set(r.coords)
    if got != expc:
        ctx.violation("coordinate-set", f"{op} {ckey[1]} keep_coords={desc['keep_coords']} carry={desc['carry']}: "
                                        f"unexpected {sorted(got - expc)}, missing {sorted(expc - got)}")
        return
    for c in sorted(got):
        rc, dc = r.coords[c], ds.coords[c]
        if set(rc.dims) != set(dc.dims) or not np.array_equal(rc.variable.transpose(*dc.dims).values, dc.values):
            ctx.violation("coordinate-values", f"coordinate {c} of the result differs from the dataset's")
            return
        if dict(rc.attrs) != dict(dc.attrs):
            ctx.violation("coordinate-attrs", f"coordinate {c}: attrs {dict(rc.attrs)} vs dataset {dict(dc.attrs)}")
            return
    old = [cm[a][desc["pos"][a]] for a in opax]
    stale = [c for c in r.coords if any(o in r.coords[c].dims for o in old)]
    if stale or any(o in r.dims for o in old):
        ctx.violation("no-stale-coordinate", f"result still refers to the abandoned dimension(s) {old}: {stale}")
        return
    if r.name != da.name:
        ctx.violation("name-kept", f"{op}: result name {r.name!r}, input name {da.name!r}")
        return
    if set(r.dims) != set(rdims):
        ctx.violation("result-dims", f"{r.dims} vs {rdims}")
        return
    if desc.get("vector") and "face" in partner.coords:
        # ... nor do the labels carried by the partner component
        ctx.judged(("label-independence", "partner-labels", op), True)
        try:
            rp = run(da, partner.drop_vars("face"))
            if tuple(rp.dims) != tuple(r.dims) or not np.array_equal(rp.values, r.values):
                ctx.violation("values-independent-of-labels", f"{op}: values change when the partner component carries (permuted) face labels")
                return
        except Exception as e:
            ctx.violation("values-independent-of-labels", f"{op} with an unlabelled partner raised {type(e).__name__}: {str(e)[:200]}")
            return
    # label independence: same call with the labels removed / scrambled
    variants = [("bare" if desc["carry"] else "carry", bare if desc["carry"] else
                 bare.assign_coords({c: v for c, v in ds.coords.items() if set(v.dims) <= set(dims)}))]
    scr = bare.assign_coords({d: (d, np.arange(ds.sizes[d])[::-1] * 7.0 - 3) for d in dims})
    if not weighted:
        # (labels that contradict the dataset's are outside the quantifier - inputs carry the dataset's coordinates or none -
        # and data times metric is xarray arithmetic, which aligns on labels: not drawn together with weighting)
        variants.append(("scrambled", scr))
    for nm, v in variants:
        ctx.judged(("label-independence", nm, op), True)
        try:
            r2 = run(v)
            if tuple(r2.dims) != tuple(r.dims) or not np.array_equal(r2.values, r.values):
                ctx.violation("values-independent-of-labels", f"{op}: values/dims change when the input's coordinate labels are {nm}")
                return
            if nm == "scrambled" and any(
                c in r2.coords and c in ds.coords and not np.array_equal(r2.coords[c].values, ds.coords[c].values) for c in r2.dims
            ):
                # the new dimension's coordinate must still be the dataset's
                newd = [cm[a][to[a]] for a in opax]
                badc = [c for c in newd if c in r2.coords and c in ds.coords and not np.array_equal(r2.coords[c].values, ds.coords[c].values)]
                if badc:
                    ctx.violation("coordinate-values", f"new dimension coordinate(s) {badc} taken from the input's labels")
                    return
        except Exception as e:
            ctx.violation("values-independent-of-labels", f"{op} with {nm} labels raised {type(e).__name__}: {str(e)[:200]}")
            return
