"""C06 - lazy (dask) execution equals in-memory execution for every chunking."""
import numpy as np

from .. import chaos, gen
from ..models import topo
from . import c09

ID = "C06"
NEEDS_SHIM = False
BUDGET = {"quick": 1000, "thorough": 30000}
MIN_EVALS = {"quick": 1500, "thorough": 40000}
RULE = (
    "seeded random lazy/eager pairs: (A) diff/interp/min/max/cumsum over 1-2 axes on simple grids (random position sets, "
    "2-7 cells, any rule), (B) derivative/integrate/average/cumint/metric_weighted with metrics at every position, (C) "
    "apply_as_grid_ufunc with dask='parallelized' (core dim unchunked), dask='allowed', and dask='allowed'+map_overlap "
    "on chunked or unchunked core dims (the user function converts its argument with np.asarray unless the mode is plain 'allowed', as a kernel written for in-memory blocks does), (D) diff/interp/min/max of scalars and diff/interp of vector components on "
    "face-connected grids (geometric D4 topologies) chunked over face and extra dims. Every dimension's chunking is a "
    "uniformly random composition of its length (size-1, uneven and single-chunk layouts included). Monitors: a dask "
    "callback counts graph executions while the result is being built (must be 0); the result must be a dask collection; "
    "compute() under 2-3 schedulers drawn from synchronous, threads x {1,2,4,16} and a seeded chaos executor (random "
    "per-task delays) must equal the in-memory result in values (bit-exact, exact-safe data), dims and order, coordinates "
    "and name; data chunked along the operated axis with an inner/outer position involved may be refused with "
    "NotImplementedError only, and no other input may raise; finally a second input (-2x+1) goes through the same call and "
    "both lazy results are computed in one graph - each must equal its own in-memory result. Class = (family, op, shifts, which dims are chunked "
    "(core / other), chunk shape kind, scheduler kinds, refusable); non-trivial iff some dimension has more than one chunk."
)
REQUIRED_REACH = [
    "xgcm.grid_ufunc._map_func_over_core_dims",
    "xgcm.grid_ufunc._rechunk_to_merge_in_boundary_chunks",
    "xgcm.grid_ufunc._get_chunk_pattern_for_merging_boundary",
    "xgcm.grid_ufunc._check_if_length_would_change",
    "xgcm.grid_ufunc._has_chunked_core_dims",
    "xgcm.grid.Grid.cumsum",
    "xgcm.padding._pad_face_connections",
]
FILLS = [0, -3.25, 7]


def rand_chunks(rng, sizes, p_chunk=0.7):
    return {d: (list(gen.random_composition(rng, n)) if rng.random() < p_chunk else [n]) for d, n in sizes.items()}


def gen_case(rng, i, tier):
    fam = rng.choice(["A", "A", "B", "C", "C", "D", "D"])
    scheds = [chaos.random_scheduler(rng) for _ in range(rng.choice([2, 2, 3]))]
    lazy_coord = {"ndims": rng.choice([1, 2]), "ones": rng.random() < 0.6} if rng.random() < 0.3 else None
    if fam == "D":
        Kx, Ky = rng.choice([(2, 1), (1, 2), (2, 2), (3, 1), (3, 2)])
        per = rng.random() < 0.5
        N = rng.randint(2, 4)
        T, t = topo.random_topo(rng, Kx, Ky, N, per)
        if T is None:
            return None
        extra = {e: rng.randint(1, 3) for e in rng.sample(gen.EXTRA_DIM_POOL, rng.choice([0, 1, 2]))}
        vector = rng.random() < 0.5
        order = ["face", "Ydim", "Xdim"] + list(extra)
        rng.shuffle(order)
        sizes = dict(extra, face=T.nf)
        return {"family": "D", "Kx": Kx, "Ky": Ky, "N": N, "periodic": per, "orients": topo.orient_ids(T), "extra": extra,
                "order": order, "vector": vector, "op": rng.choice(["diff", "interp"] if vector else ["diff", "interp", "min", "max"]),
                "axis": rng.choice("XY"), "to": rng.choice(["left", "right"]), "rule": rng.choice(gen.RULES),
                "chunks": rand_chunks(rng, sizes, 0.8), "scheds": scheds, "dseed": rng.getrandbits(31),
                "lazy_coord": None if lazy_coord is None else dict(lazy_coord, dims=["face", "y", "x", "xl", "yl", "xr", "yr"][: 3 if lazy_coord["ndims"] == 2 else 1])}
    layout = gen.random_layout(rng, nax=rng.randint(1, 2), nmin=2, nmax=gen.deep(rng, tier, 7, 12), p=0.55, at_least=2)
    axn = [a["name"] for a in layout["axes"]]
    cm = gen.layout_coords(layout)
    sizes_all = gen.layout_sizes(layout)
    pos = {a: rng.choice(list(cm[a])) for a in axn}
    extra = {e: rng.randint(1, 3) for e in rng.sample(gen.EXTRA_DIM_POOL, rng.choice([0, 1, 1, 2]))}
    desc = {"family": fam, "layout": layout, "pos": pos, "extra": extra, "scheds": scheds, "dseed": rng.getrandbits(31),
            "mseed": rng.getrandbits(31), "ctor": {"periodic": rng.choice([True, False]), "boundary": None, "fill_value": None},
            "name": rng.choice(["q", None])}
    if fam == "A":
        opax = rng.sample(axn, rng.randint(1, len(axn)))
        op = rng.choice(["diff", "interp", "min", "max", "cumsum"])
    elif fam == "B":
        op = rng.choice(["derivative", "integrate", "average", "cumint", "mw"])
        opax = rng.sample(axn, rng.randint(1, len(axn))) if op in ("integrate", "average") else [rng.choice(axn)]
        if op == "mw" and len(axn) > 1 and rng.random() < 0.5:
            opax = rng.sample(axn, 2)  # several axes, each weighted by its own metric
    else:
        op = "ufunc"
        opax = [rng.choice(axn)]
    to = {a: (rng.choice([p for p in cm[a] if p != "center"]) if pos[a] == "center" else "center") for a in opax}
    dims = [cm[a][pos[a]] for a in axn if a in opax or rng.random() < 0.6] + list(extra)
    rng.shuffle(dims)
    sizes = {d: (sizes_all[d] if d in sizes_all else extra[d]) for d in dims}
    desc.update({"op": op, "opax": opax, "to": to, "dims": dims,
                 "call": {"boundary": rng.choice(gen.RULES), "fill_value": rng.choice(FILLS)},
                 "keep_coords": rng.choice([None, None, True, False]), "vector_form": rng.random() < 0.25,
                 "lazy_metrics": fam == "B" and rng.random() < 0.4})
    chunks = rand_chunks(rng, sizes)
    if op == "ufunc":
        a = opax[0]
        core = cm[a][pos[a]]
        mode = rng.choice(["parallelized", "allowed", "allowed-map_overlap"])
        desc["dask_mode"] = mode
        if mode == "parallelized":
            chunks[core] = [sizes[core]]
        desc["mw_base"] = None
        # a second core dimension (two dummy axes in one argument), in whatever order the data happens to store them
        others = [b for b in axn if b != a and cm[b][pos[b]] in dims and pos[b] in ("center", "left", "right")]
        if others and rng.random() < 0.5 and pos[a] in ("center", "left", "right") and to[a] in ("center", "left", "right"):
            desc["second_core"] = others[0]
            if mode == "parallelized":
                chunks[cm[others[0]][pos[others[0]]]] = [sizes[cm[others[0]][pos[others[0]]]]]
    if op == "mw":
        desc["mw_base"] = rng.choice(["diff", "interp"])
    desc["chunks"] = chunks
    desc["lazy_coord"] = None if lazy_coord is None else dict(lazy_coord, dims=dims[: lazy_coord["ndims"]])
    return desc


def identical(a, b):
    """hand-written identity incl. dims order, coordinate set / values and name."""
    if tuple(a.dims) != tuple(b.dims):
        return f"dims {a.dims} vs {b.dims}"
    if a.shape != b.shape:
        return f"shape {a.shape} vs {b.shape}"
    # (the name is not compared: the statement speaks of values, dimensions and coordinates; names are C19's business)
    if set(a.coords) != set(b.coords):
        return f"coords {sorted(a.coords)} vs {sorted(b.coords)}"
    for c in a.coords:
        if a.coords[c].dims != b.coords[c].dims or not np.array_equal(a.coords[c].values, b.coords[c].values):
            return f"coordinate {c} differs"
    if not np.array_equal(a.values, b.values, equal_nan=True):
        w = tuple(np.argwhere(~((a.values == b.values) | (np.isnan(a.values) & np.isnan(b.values))))[0])
        return f"values differ at {w}: lazy {a.values[w]} vs eager {b.values[w]}"
    return None


def setup_simple(desc):
    import xarray as xr

    d9 = {"layout": desc["layout"], "extra": desc["extra"], "mseed": desc["mseed"], "ctor": desc["ctor"]}
    ds, g = c09.build(d9)
    g_lazy = c09.build(dict(d9, lazy_metrics=True))[1] if desc.get("lazy_metrics") else g
    cm = gen.layout_coords(desc["layout"])
    shape = [ds.sizes[d] for d in desc["dims"]]
    da = xr.DataArray(gen.quarter_data(desc["dseed"], shape), dims=desc["dims"], name=desc["name"])
    op, opax, to, call = desc["op"], desc["opax"], desc["to"], desc["call"]
    axarg = opax if len(opax) > 1 else opax[0]
    core_dims = [cm[a][desc["pos"][a]] for a in opax]
    involved = {p for a in opax for p in (desc["pos"][a], to[a])}
    if op in ("diff", "interp", "min", "max", "cumsum"):
        kc = {} if desc.get("keep_coords") is None else {"keep_coords": desc["keep_coords"]}
        if desc.get("vector_form") and op != "cumsum" and len(opax) == 1:
            # the vector spelling {axis: component}: on a grid without face connections it is the component alone,
            # and lazy vector inputs are accepted wherever in-memory ones are
            fn = lambda x: getattr(g, op)({opax[0]: x}, opax[0], to=to[opax[0]], **call, **kc)  # noqa: E731
        else:
            fn = lambda x: getattr(g, op)(x, axarg, to=to, **call, **kc)  # noqa: E731
    elif op == "derivative":
        fn = lambda x: g.derivative(x, opax[0], to=to[opax[0]], **call)  # noqa: E731
    elif op == "integrate":
        fn = lambda x: g.integrate(x, axarg)  # noqa: E731
        involved = set()
    elif op == "average":
        fn = lambda x: g.average(x, axarg)  # noqa: E731
        involved = set()
    elif op == "cumint":
        fn = lambda x: g.cumint(x, opax[0], to=to[opax[0]], **call)  # noqa: E731
    elif op == "mw":
        if len(opax) == 1:
            fn = lambda x: getattr(g, desc["mw_base"])(x, opax[0], to=to[opax[0]], metric_weighted=opax[0], **call)  # noqa: E731
        else:
            mwarg = {a: (a,) for a in opax} if desc["mseed"] % 2 else opax[0]
            fn = lambda x: getattr(g, desc["mw_base"])(x, list(opax), to=dict(to), metric_weighted=mwarg, **call)  # noqa: E731
    else:
        a = opax[0]
        frm, t_ = desc["pos"][a], to[a]
        widths = {("center", "left"): (1, 0), ("left", "center"): (0, 1), ("center", "right"): (0, 1), ("right", "center"): (1, 0),
                  ("center", "outer"): (1, 1), ("outer", "center"): (0, 0), ("center", "inner"): (0, 0), ("inner", "center"): (1, 1)}
        bw = {"lon": widths[(frm, t_)]}
        sig = f"(lon:{frm})->(lon:{t_})"
        mode = desc["dask_mode"]

        b2 = desc.get("second_core")
        if b2:
            # signature (P:frm, Q:pos_b) -> (P:to, Q:pos_b): P padded and differenced on the second-to-last axis
            bw = {"lon": widths[(frm, t_)]}
            sig = f"(lon:{frm},k2:{desc['pos'][b2]})->(lon:{t_},k2:{desc['pos'][b2]})"
            core_dims = core_dims + [cm[b2][desc["pos"][b2]]]

            def user(x):
                if mode != "allowed":
                    x = np.asarray(x)  # parallelized / map_overlap hand the function in-memory blocks: it may rely on that
                return x[..., 1:, :] * 2 - x[..., :-1, :]

            def fn(x, lazy=None):
                kw = {}
                if x.chunks is not None:
                    kw["dask"] = "parallelized" if mode == "parallelized" else "allowed"
                    if mode == "allowed-map_overlap":
                        kw["map_overlap"] = True
                return g.apply_as_grid_ufunc(user, x, axis=[(a, b2)], signature=sig, boundary_width=bw, **call, **kw)

            return ds, g, da, fn, core_dims, involved

        def user(x):
            if mode != "allowed":
                x = np.asarray(x)  # parallelized / map_overlap hand the function in-memory blocks: it may rely on that
            return x[..., 1:] * 2 - x[..., :-1]

        def fn(x, lazy=None):
            kw = {}
            is_lazy = x.chunks is not None
            if is_lazy:
                kw["dask"] = "parallelized" if mode == "parallelized" else "allowed"
                if mode == "allowed-map_overlap":
                    kw["map_overlap"] = True
            if mode == "parallelized" and desc["dseed"] % 3 == 0:
                # a second input on the same position that stays in memory next to the lazy one: inputs that are lazy in
                # part are accepted as wholly lazy or wholly in-memory ones are
                sig2 = f"(lon:{frm}),(lon:{frm})->(lon:{t_})"
                return g.apply_as_grid_ufunc(lambda p, q: user(p) - np.asarray(q)[..., 1:] / 2, x, da2, axis=[(a,), (a,)], signature=sig2, boundary_width=bw, **call, **kw)
            return g.apply_as_grid_ufunc(user, x, axis=[(a,)], signature=sig, boundary_width=bw, **call, **kw)

        da2 = (da * 0.5 + 1).rename("companion")

    if g_lazy is not g:
        # the same closure, but evaluated on the dask-backed grid when the input is lazy
        fn_eager = fn

        def fn(x, _fe=fn_eager):  # noqa: F811
            nonlocal g
            is_lazy = (x.chunks is not None) if not isinstance(x, dict) else any(v.chunks is not None for v in x.values())
            keep = g
            g = g_lazy if is_lazy else keep
            try:
                return _fe(x)
            finally:
                g = keep

    return ds, g, da, fn, core_dims, involved


def setup_faces(desc):
    import xarray as xr
    from xgcm import Grid

    Kx, Ky, N = desc["Kx"], desc["Ky"], desc["N"]
    T = topo.Topo(Kx, Ky, N, [topo.D4[k] for k in desc["orients"]], desc["periodic"])
    t = T.table()
    coords = {"x": ("x", np.arange(N) + 0.5), "xl": ("xl", np.arange(N) * 1.0), "xr": ("xr", np.arange(N) + 1.0),
              "y": ("y", np.arange(N) + 0.5), "yl": ("yl", np.arange(N) * 1.0), "yr": ("yr", np.arange(N) + 1.0),
              "face": ("face", np.arange(T.nf))}
    for e, n in desc["extra"].items():
        coords[e] = (e, np.arange(n) * 1.0)
    ds = xr.Dataset(coords=coords)
    cm = {"X": {"center": "x", "left": "xl", "right": "xr"}, "Y": {"center": "y", "left": "yl", "right": "yr"}}
    g = Grid(ds, coords=cm, face_connections={"face": t}, periodic=False, boundary=desc["rule"], fill_value=-2.5, autoparse_metadata=False)
    ex = list(desc["extra"])
    shape = [desc["extra"][e] for e in ex] + [T.nf, N, N]
    a, op, to = desc["axis"], desc["op"], desc["to"]

    def mk(seed, dY, dX):
        nm = {"face": "face", "Ydim": dY, "Xdim": dX}
        return xr.DataArray(gen.quarter_data(seed, shape), dims=ex + ["face", dY, dX], name="f").transpose(*[nm.get(d, d) for d in desc["order"]])

    if not desc["vector"]:
        da = mk(desc["dseed"], "y", "x")
        fn = lambda x: getattr(g, op)(x, a, to=to)  # noqa: E731
        return ds, g, da, fn, None
    stag = to  # reuse the drawn word as the staggering of the components
    sx, sy = ("xl", "yl") if stag == "left" else ("xr", "yr")
    u = mk(desc["dseed"], "y", sx)
    v = mk(desc["dseed"] + 1, sy, "x")
    comp = {"X": u, "Y": v}
    oth = "Y" if a == "X" else "X"

    def fn(pair):
        return getattr(g, op)({a: pair[a]}, a, other_component={oth: pair[oth]}, to="center")

    return ds, g, comp, fn, None


def run_case(ctx, desc):
    import dask

    fam = desc["family"]
    chunks = {d: tuple(c) for d, c in desc["chunks"].items()}
    if fam == "D":
        ds, g, data, fn, _ = setup_faces(desc)
        core_dims, involved = [], set()
        opname = ("vector-" if desc["vector"] else "") + desc["op"]
        shifts = [("center", desc["to"])] if not desc["vector"] else [(desc["to"], "center")]
    else:
        ds, g, data, fn, core_dims, involved = setup_simple(desc)
        opname = ("2core-" if desc.get("second_core") else "") + ("vector-" if desc.get("vector_form") and desc["op"] in ("diff", "interp", "min", "max") and len(desc["opax"]) == 1 else "") + desc["op"] + (":" + desc["dask_mode"] if desc["op"] == "ufunc" else "") + (":" + desc["mw_base"] if desc["op"] == "mw" else "")
        shifts = [(desc["pos"][a], desc["to"][a]) for a in desc["opax"]]
    # inputs may carry a (dask-backed) non-index coordinate whose chunking has nothing to do with the data's
    lc = desc.get("lazy_coord")

    def with_coord(x, lazy):
        import xarray as xr

        if not lc:
            return x
        cd = [d for d in x.dims if d in lc["dims"]] or list(x.dims[:1])
        vals = gen.quarter_data(desc["dseed"] + 99, [x.sizes[d] for d in cd])
        c = xr.DataArray(vals, dims=cd)
        if lazy:
            c = c.chunk({d: (1 if lc["ones"] else -1) for d in cd})
        return x.assign_coords(aux_lazy=c)

    if lc:
        data = {k: with_coord(v, False) for k, v in data.items()} if isinstance(data, dict) else with_coord(data, False)
    chunked = {d for d, c in chunks.items() if len(c) > 1}
    core_chunked = bool(chunked & set(core_dims))
    # refusable: the data is chunked along the dimension of an operated axis *and that same axis* moves from or to an
    # inner/outer position (judged per axis: a chunked X does not excuse refusing an unchunked Z -> outer)
    if fam == "D" or not involved:
        refusable = False
    else:
        cm_ = gen.layout_coords(desc["layout"])
        refusable = any(
            cm_[a][desc["pos"][a]] in chunked and {desc["pos"][a], desc["to"][a]} & {"inner", "outer"} for a in desc["opax"]
        )
    if fam == "C" and desc["dask_mode"] == "allowed-map_overlap" and involved & {"inner", "outer"}:
        # an explicit map_overlap=True with an inner/outer position is refused today even when the core dim is in
        # one chunk; the statement does not say whether it should be, so a refusal there is not judged
        refusable = True
    kinds = sorted({("single" if len(c) == 1 else "ones" if max(c) == 1 else "uneven" if len(set(c)) > 1 else "even") for c in chunks.values()})
    ckey = (fam, opname, shifts, "core-chunked" if core_chunked else "core-whole", bool(chunked - set(core_dims)), kinds, bool(lc),
            sorted({s if isinstance(s, str) else s[0] for s in desc["scheds"]}), refusable)
    ctx.judged(ckey, bool(chunked))
    try:
        eager = fn(data)
    except Exception as e:
        # a well-posed in-memory call that fails is another property's business; nothing to compare with
        ctx.count("eager_raised_" + type(e).__name__)
        return
    def lazify(v):
        base = v.drop_vars("aux_lazy") if lc else v
        z = base.chunk({d: c for d, c in chunks.items() if d in base.dims})
        return with_coord(z, True)

    if fam == "D" and desc["vector"]:
        # both components lazy, or only one of them (the operated component with an in-memory partner, or the reverse):
        # a vector input that is lazy in part is a lazy input
        mix = desc["dseed"] % 3
        opd = desc["axis"]
        lazy_in = {k: (v if (mix == 1 and k != opd) or (mix == 2 and k == opd) else lazify(v)) for k, v in data.items()}
    else:
        lazy_in = lazify(data)
    cnt = chaos.Count()
    try:
        with cnt:
            r = fn(lazy_in)
    except NotImplementedError as e:
        ctx.count("refused_NotImplementedError")
        if not refusable:
            ctx.violation("lazy-accepted-where-eager-is", f"{opname} {shifts} chunks {chunks}: NotImplementedError outside the refusable class: {str(e)[:150]}")
        return
    except Exception as e:
        ctx.violation("lazy-accepted-where-eager-is", f"{opname} {shifts} chunks {chunks}: raised {type(e).__name__}: {str(e)[:250]} (in-memory call works)")
        return
    if ctx.evaluations % 40 == 1:
        ctx.sample({"case": desc, "result_chunks": [list(c) for c in (r.chunks or [])]})
    if cnt.n:
        ctx.violation("no-compute-while-building", f"{opname} {shifts}: {cnt.n} graph execution(s) were triggered while the result was being built (chunks {chunks})")
        return
    if not dask.is_dask_collection(r):
        if fam == "D" and desc["vector"] and desc["dseed"] % 3 == 2:
            # only the partner was lazy: where no axis-swapping link brings it in, the result is rightly in memory
            ctx.judged(("lazy-partner-unused", opname), False)
            why = identical(r, eager)
            if why:
                ctx.violation("lazy-equals-eager", f"{opname} {shifts} (component in memory, partner lazy, chunks {chunks}): {why}")
            return
        ctx.violation("result-is-lazy", f"{opname} {shifts}: the result of a dask-backed input is not a dask collection")
        return
    for spec in desc["scheds"]:
        c2 = chaos.Count()
        try:
            with c2:
                v = r.compute(**chaos.scheduler(spec))
        except Exception as e:
            ctx.violation("compute-succeeds", f"{opname} {shifts} chunks {chunks} scheduler {spec}: compute raised {type(e).__name__}: {str(e)[:250]}")
            return
        ctx.judged(("compute", fam, opname, spec if isinstance(spec, str) else spec[0]), bool(chunked))
        ctx.note("schedulers", spec if isinstance(spec, str) else spec[:1] + ([spec[1]] if spec[0] == "threads" else []))
        ctx.note("distinct_task_orders", (ctx.case_index, c2.order_hash()))
        ctx.count("tasks_executed", len(c2.keys))
        why = identical(v, eager)
        if why:
            ctx.violation("lazy-equals-eager", f"{opname} {shifts} chunks {chunks} scheduler {spec}: {why}")
            return
    # two lazy results of the same operation on *different* inputs, evaluated together in one graph (as the variables of a
    # Dataset are): each must still be the in-memory result of its own input - task keys may not be shared between them
    def other(x):
        return (x * -2 + 1).assign_coords(x.coords).rename(x.name)

    data2 = {k: other(v) for k, v in data.items()} if isinstance(data, dict) else other(data)
    lazy2 = {k: lazify(v) for k, v in data2.items()} if isinstance(data2, dict) else lazify(data2)
    try:
        eager2 = fn(data2)
        r2 = fn(lazy2)
    except Exception as e:
        ctx.count("joint_second_input_raised_" + type(e).__name__)
        return
    spec = desc["scheds"][0]
    ctx.judged(("joint-compute", fam, opname, "core-chunked" if core_chunked else "core-whole"), bool(chunked))
    try:
        v1, v2 = dask.compute(r, r2, **chaos.scheduler(spec))
    except Exception as e:
        ctx.violation("compute-succeeds", f"{opname} {shifts} chunks {chunks}: joint compute of two results raised {type(e).__name__}: {str(e)[:250]}")
        return
    for nm, vv, ee in (("first", v1, eager), ("second", v2, eager2)):
        why = identical(vv, ee)
        if why:
            ctx.violation("lazy-equals-eager", f"{opname} {shifts} chunks {chunks}: two lazy results computed together, the {nm} is not the in-memory result of its input: {why}")
            return
