"""C11 - grid ufuncs receive padded core dims last and return declared positions."""
import itertools

import numpy as np

from .. import gen
from ..models import resolve
from ..models.pad import pad_axis

ID = "C11"
NEEDS_SHIM = False
BUDGET = {"quick": 4000, "thorough": 300000}
MIN_EVALS = {"quick": 4000, "thorough": 60000}
RULE = (
    "seeded random programs: a signature with 1-3 inputs, 1-2 outputs (possibly without core dims), 1-2 dummy axes per "
    "argument out of 1-3 dummy names (incl. hostile identifiers), bound to the real axes of a random 1-3 axis grid in "
    "order of first appearance; boundary_width over dummies carried by every input; boundary/fill_value spellings at grid, "
    "definition and call level; the options supplied through apply_as_grid_ufunc (function and Grid method), through the as_grid_ufunc decorator, "
    "through Annotated type hints + decorator, and as definition-time value != default != call-time value; a recording "
    "user function that returns arrays of the declared output sizes. Verdicts: received arrays have the signature axes "
    "trailing in signature order, extended by exactly the declared widths with the rule in force (set of core blocks "
    "compared order-agnostically over leading axes; corner cells may follow any sequential order); outputs are "
    "DataArrays whose trailing dims are the declared output positions; definition-time options act like call-time "
    "ones and call-time overrides; in a third of the cases the same "
    "ufunc object and option objects are then applied on a second grid with different defaults (judged with that grid's "
    "rules); a later `axis` entry listing already bound axes in another order does not rebind them (same arrays received, or refusal); a mis-positioned input is rejected; pad_before_func bound at definition == call; dask= / map_overlap= bound at "
    "definition == call == apply on lazy input (one-axis signature, or two-axis with only the first axis padded and the second core dim in one chunk; parallelized, allowed, allowed+map_overlap on a chunked core dim), call-time dask overrides 'forbidden' and vice versa. Class "
    "= (supply mode, #inputs, #outputs, dummies per argument, which options come from which level, rules); non-trivial "
    "iff some width > 0 or several inputs/dummies."
)
REQUIRED_REACH = [
    "xgcm.grid_ufunc.apply_as_grid_ufunc",
    "xgcm.grid_ufunc.GridUFunc.__call__",
    "xgcm.grid_ufunc._identify_dummy_axes_with_real_axes",
    "xgcm.grid_ufunc._substitute_dummy_axis_names",
    "xgcm.grid_ufunc._pad_then_rechunk",
    "xgcm.grid_ufunc._apply",
]
DUMMY_POOL = ["P", "Q", "lon", "k", "X", "Y", "t", "e", "xcenter", "_a", "R2"]
FILLS = [-3.25, 7, 2.5, -9]


def gen_case(rng, i, tier):
    layout = gen.random_layout(rng, nmin=2, nmax=gen.deep(rng, tier, 4, 7), p=0.5, at_least=2)
    axn = [a["name"] for a in layout["axes"]]
    cm = gen.layout_coords(layout)
    nd = rng.randint(1, min(3, len(axn)))
    dummies = rng.sample(DUMMY_POOL, nd)
    real = rng.sample(axn, nd)
    bind = dict(zip(dummies, real))
    nin = rng.randint(1, 3)
    ins = []
    for _ in range(nin):
        sub = rng.sample(dummies, rng.randint(1, min(2, nd)))
        ins.append([[d, rng.choice(list(cm[bind[d]]))] for d in sub])
    # the binding is by order of first appearance: make `dummies`/`real` follow it
    first = list(dict.fromkeys(d for arg in ins for d, _ in arg))
    outs = []
    for _ in range(rng.randint(1, 2)):
        sub = [d for d in first if rng.random() < 0.75]
        rng.shuffle(sub)
        sub = sub[:2]
        outs.append([[d, rng.choice(list(cm[bind[d]]))] for d in sub])
    common = [d for d in first if all(d in [x for x, _ in arg] for arg in ins)]
    bw = {d: [rng.randint(0, 2), rng.randint(0, 2)] for d in common if rng.random() < 0.8}
    args = []
    for arg in ins:
        used = {bind[d] for d in first}
        dims = [cm[bind[d]][p] for d, p in arg]
        dims += [cm[a][rng.choice(list(cm[a]))] for a in axn if a not in used and rng.random() < 0.5]
        if rng.random() < 0.5:
            dims.append("time")
        rng.shuffle(dims)
        args.append(dims)
    ctor = {"periodic": rng.choice([True, False]),
            "boundary": gen.random_spelling(rng, axn, gen.RULES, p_none=0.5),
            "fill_value": gen.random_spelling(rng, axn, FILLS, p_none=0.5)}
    # options at definition level and at call level (real axis names in mappings)
    defn = {"boundary": gen.random_spelling(rng, axn, gen.RULES, p_none=0.4),
            "fill_value": gen.random_spelling(rng, axn, FILLS, p_none=0.4, allow_partial=True)}
    # call-time values include the falsy ones (0, 0.0): "call-time values override" must not depend on truthiness
    call = {"boundary": gen.random_spelling(rng, axn, gen.RULES, p_none=0.5),
            "fill_value": gen.random_spelling(rng, axn, FILLS + [0, 0.0, 0], p_none=0.4)}
    mode = rng.choice(["apply", "apply-method", "decorator", "hints", "define-then-override"])
    call_bw = None
    if mode == "define-then-override" and rng.random() < 0.5 and common:
        call_bw = {d: [rng.randint(0, 2), rng.randint(0, 2)] for d in common if rng.random() < 0.8}
    return {"layout": layout, "bind": bind, "ins": ins, "outs": outs, "bw": bw, "call_bw": call_bw, "args": args,
            "ctor": ctor, "defn": defn, "call": call, "mode": mode, "dseed": rng.getrandbits(31),
            "misplace": rng.random() < 0.15}


def render(ins, outs):
    f = lambda args: ",".join("(" + ",".join(f"{n}:{p}" for n, p in arg) + ")" for arg in args)  # noqa: E731
    return f(ins) + "->" + f(outs)


def block_set(x, nc):
    x = np.asarray(x)
    if nc == 0:
        return {v.tobytes() for v in x.reshape(-1)}
    lead = int(np.prod(x.shape[: x.ndim - nc])) if x.ndim > nc else 1
    flat = x.reshape((lead,) + x.shape[x.ndim - nc:])
    return {np.ascontiguousarray(flat[i]).tobytes() for i in range(lead)}


def run_case(ctx, desc):
    import xarray as xr
    from xgcm import Grid, apply_as_grid_ufunc, as_grid_ufunc

    cm = gen.layout_coords(desc["layout"])
    ds = gen.build_ds(desc["layout"], extra={"time": 2})
    ctor = {k: v for k, v in desc["ctor"].items() if v is not None or k == "periodic"}
    g = Grid(ds, coords=cm, autoparse_metadata=False, **ctor)
    bind, ins, outs = desc["bind"], desc["ins"], desc["outs"]
    sig = render(ins, outs)
    mode = desc["mode"]
    # unique ids per input so that a block identifies where it came from
    args = []
    base = 1
    for dims in desc["args"]:
        shape = [ds.sizes[d] for d in dims]
        n = int(np.prod(shape))
        args.append(xr.DataArray((np.arange(n, dtype=float) + base).reshape(shape), dims=dims))
        base += 1000
    axis = [tuple(bind[d] for d, _ in arg) for arg in ins]
    outsizes = [[ds.sizes[cm[bind[d]][p]] for d, p in o] for o in outs]
    rec = []

    def body(*a):
        rec.append([np.array(x) for x in a])
        lead = np.broadcast_shapes(*[x.shape[: x.ndim - len(arg)] for x, arg in zip(a, ins)])
        res = tuple(np.zeros(lead + tuple(s)) + k for k, s in enumerate(outsizes))
        return res if len(res) > 1 else res[0]

    # which option value is in force
    if mode in ("apply", "apply-method"):
        defn, call = {}, {k: v for k, v in desc["call"].items() if v is not None}
        bw_def, bw_call = None, desc["bw"]
    elif mode in ("decorator", "hints"):
        defn, call = {k: v for k, v in desc["defn"].items() if v is not None}, {}
        bw_def, bw_call = desc["bw"], None
    else:
        defn = {k: v for k, v in desc["defn"].items() if v is not None}
        call = {k: v for k, v in desc["call"].items() if v is not None}
        bw_def, bw_call = desc["bw"], desc["call_bw"]
    eff_bw = bw_call if bw_call is not None else (bw_def or {})
    import copy

    eff = {}
    for k in ("boundary", "fill_value"):
        eff[k] = call[k] if k in call else defn.get(k)
    # the model keeps its own copy of the options in force; the library is handed separate objects (which stay the same
    # objects over all calls of this case, as a user's would)
    eff = copy.deepcopy(eff)
    defn, call = copy.deepcopy(defn), copy.deepcopy(call)

    made = {}

    def invoke(arglist, g=g, axis=axis):
        if mode == "apply":
            return apply_as_grid_ufunc(body, *arglist, axis=axis, grid=g, signature=sig,
                                       boundary_width={d: tuple(w) for d, w in bw_call.items()}, **call)
        if mode == "apply-method":
            # the same through the Grid method
            return g.apply_as_grid_ufunc(body, *arglist, axis=axis, signature=sig,
                                         boundary_width={d: tuple(w) for d, w in bw_call.items()}, **call)
        if "gu" in made:
            gu = made["gu"]  # the ufunc is defined once and called many times
        elif mode == "hints":
            from typing import Annotated, Tuple

            params = [f"a{k}" for k in range(len(ins))]
            ns = {"body": body}
            exec(f"def f({', '.join(params)}):\n    return body({', '.join(params)})\n", ns)
            f = ns["f"]
            ann = {p: Annotated[np.ndarray, ",".join(f"{n}:{q}" for n, q in arg)] for p, arg in zip(params, ins)}
            rets = [Annotated[np.ndarray, ",".join(f"{n}:{q}" for n, q in arg)] if arg else np.ndarray for arg in outs]
            ann["return"] = rets[0] if len(rets) == 1 else Tuple[tuple(rets)]
            f.__annotations__ = ann
            if desc["dseed"] % 2:
                # the same kernel has been made into a grid ufunc before, with other options (a library of kernels wrapped
                # per use): what is bound when *this* ufunc is defined is what counts
                as_grid_ufunc(boundary="extend" if defn.get("boundary") != "extend" else "fill", fill_value=11.0)(f)
            gu = as_grid_ufunc(boundary_width={d: tuple(w) for d, w in bw_def.items()}, **defn)(f)
        else:
            gu = as_grid_ufunc(signature=sig, boundary_width={d: tuple(w) for d, w in bw_def.items()}, **defn)(body)
        made["gu"] = gu
        kw = dict(call)
        if bw_call is not None:
            kw["boundary_width"] = {d: tuple(w) for d, w in bw_call.items()}
        return gu(g, *arglist, axis=axis, **kw)

    hints_ok = all(len(a) > 0 for a in outs) or mode != "hints"
    if not hints_ok:
        # an output without core dims cannot be written as an Annotated hint: use the decorator form
        mode = "decorator"
    levels = (mode, len(ins), len(outs), [len(a) for a in ins],
              {k: ("call" if k in call else "def" if k in defn else "grid") for k in ("boundary", "fill_value")},
              "bw-call" if bw_call is not None else "bw-def", sorted({resolve.in_force(bind[d], desc["ctor"], eff)[0] for d in eff_bw}))
    nontrivial = any(max(w) > 0 for w in eff_bw.values()) or len(ins) > 1 or len(bind) > 1
    ctx.judged(levels, nontrivial)
    try:
        r = invoke(args)
    except Exception as e:
        ctx.violation("well-posed-call-returns", f"{mode} {sig} axis={axis} bw={eff_bw} raised {type(e).__name__}: {str(e)[:250]}",
                      mechanism=None)
        return
    if ctx.evaluations % 50 == 1:
        ctx.sample({"signature": sig, "axis": axis, "mode": mode, "boundary_width": eff_bw, "options_in_force": eff, "case": desc})
    if len(rec) != 1:
        ctx.violation("function-called-once", f"user function called {len(rec)} times for in-memory inputs")
        return
    def judge_received(got, ctor_desc, core_override=None):
        for k, (x, arg, da) in enumerate(zip(got, ins, args)):
            core = [cm[bind[d]][p] for d, p in arg]
            pdim = {d: cm[bind[d]][p] for d, p in arg}
            if core_override and k in core_override:
                core = core_override[k]
            other = [d for d in da.dims if d not in core]
            nc = len(arg)
            padded_axes = [d for d in eff_bw if d in [q for q, _ in arg] and max(eff_bw[d]) > 0]
            ok = False
            exp_shape = None
            for order in itertools.permutations(padded_axes):
                e = da.transpose(*other, *core).values
                for d in order:
                    lo, hi = eff_bw[d]
                    ax = len(other) + core.index(pdim[d])
                    rule, fv = resolve.in_force(bind[d], ctor_desc, eff)
                    e = pad_axis(e, ax, lo, hi, rule, fv)
                exp_shape = e.shape[e.ndim - nc:]
                if tuple(x.shape[x.ndim - nc:]) == tuple(exp_shape) and block_set(x, nc) == block_set(e, nc):
                    ok = True
                    break
            if not ok:
                return (f"input {k} of {sig} (axis {axis}, widths {eff_bw}, options in force {eff}, mode {mode}): "
                        f"received trailing shape {x.shape[x.ndim - nc:]} expected {exp_shape}; core blocks differ from every sequential padding order")
        return None

    why = judge_received(rec[0], desc["ctor"])
    if why:
        ctx.violation("received-arrays", why)
        return
    # the same ufunc object and the very same option objects on a second grid whose own defaults differ: what the
    # options leave open must come from the grid of *this* call, not from the grid of an earlier one
    if desc["dseed"] % 3 == 0:
        k0 = desc["dseed"] // 3
        rot = lambda v: gen.RULES[(gen.RULES.index(v) + 1 + k0 % 2) % len(gen.RULES)]  # noqa: E731
        c1 = desc["ctor"]
        b1, f1 = c1.get("boundary"), c1.get("fill_value")
        ctor2 = {"periodic": not c1["periodic"],
                 "boundary": {a: rot(v) for a, v in b1.items()} if isinstance(b1, dict) else (rot(b1) if b1 is not None else gen.RULES[k0 % 3]),
                 "fill_value": {a: v + 1.5 for a, v in f1.items()} if isinstance(f1, dict) else (f1 + 1.5 if f1 is not None else 4.5)}
        ctx.judged(("second-grid", mode, {k: ("call" if k in call else "def" if k in defn else "grid") for k in ("boundary", "fill_value")}), nontrivial)
        try:
            g2 = Grid(ds, coords=cm, autoparse_metadata=False, **ctor2)
            rec.clear()
            invoke(args, g2)
        except Exception as e:
            ctx.violation("well-posed-call-returns", f"{mode} {sig}: the same ufunc on a second grid {ctor2} raised {type(e).__name__}: {str(e)[:200]}")
            return
        why = judge_received(rec[0], ctor2) if len(rec) == 1 else f"user function called {len(rec)} times"
        if why:
            ctx.violation("received-arrays", f"second grid {ctor2} after a call on {c1}: " + why)
            return
    # dummy names are bound to real axes in order of first appearance: an `axis` entry of a *later* input that lists the
    # same real axes in another order cannot rebind them. Today such an entry only decides the order of that input's
    # trailing dimensions (the axis named in slot s at the position of signature slot s); which axis is padded by how
    # much, and where the outputs lie, still follow the first binding. The call may also be refused.
    seen_d = set()
    for k, arg in enumerate(ins):
        names_k = [d for d, _ in arg]
        if k > 0 and len(names_k) == 2 and set(names_k) <= seen_d and bind[names_k[0]] != bind[names_k[1]]:
            axis2 = list(axis)
            axis2[k] = tuple(reversed(axis[k]))
            ctx.judged(("later-axis-entry-reordered", mode, len(ins)), True)
            rec.clear()
            try:
                invoke(args, g, axis2)
            except Exception:
                break
            slot_dims = [cm[axis2[k][s_]][arg[s_][1]] for s_ in range(2)]
            if set(slot_dims) != {cm[bind[d]][p] for d, p in arg}:
                ctx.count("reordered_entry_answered_with_other_positions_not_judged")
                break
            why = judge_received(rec[0], desc["ctor"], {k: slot_dims}) if len(rec) == 1 else f"user function called {len(rec)} times"
            if why:
                ctx.violation("received-arrays", f"axis={axis2} (entry {k} lists the axes of already bound dummies in another order): " + why)
                return
            break
        seen_d |= set(names_k)
    rs = r if isinstance(r, (tuple, list)) else (r,)
    if len(rs) != len(outs):
        ctx.violation("outputs", f"{len(rs)} results for {len(outs)} declared outputs")
        return
    for ro, o in zip(rs, outs):
        want = [cm[bind[d]][p] for d, p in o]
        if not isinstance(ro, xr.DataArray) or list(ro.dims[len(ro.dims) - len(want):] if want else []) != want:
            ctx.violation("output-positions", f"{sig}: output dims {getattr(ro, 'dims', type(ro))}, declared trailing dims {want}")
            return
        # (coordinates of the outputs are not judged here: the statement fixes the dimensions only)
    if ctx.case_index % 4 == 0:
        pad_after_scenario(ctx, desc, g, ds, cm)
    if ctx.case_index % 4 == 1:
        dask_binding_scenario(ctx, desc, g, ds, cm)
    # a mis-positioned input must be rejected
    if desc["misplace"]:
        k = desc["dseed"] % len(ins)
        d0, p0 = ins[k][0]
        alts = [p for p in cm[bind[d0]] if p != p0]
        if alts:
            ctx.judged(("misplaced-input", len(ins)), True)
            dims2 = [cm[bind[d0]][alts[0]] if d == cm[bind[d0]][p0] else d for d in desc["args"][k]]
            bad = xr.DataArray(np.zeros([ds.sizes[d] for d in dims2]), dims=dims2)
            a2 = list(args)
            a2[k] = bad
            rec.clear()
            try:
                invoke(a2)
                ctx.violation("misplaced-input-rejected", f"{sig}: input {k} on {alts[0]} instead of {p0} was accepted")
            except Exception:
                pass


def pad_after_scenario(ctx, desc, g, ds, cm):
    """pad_before_func=False bound at definition time == passed at call time == model (apply, then pad the result)."""
    import xarray as xr
    from xgcm import apply_as_grid_ufunc, as_grid_ufunc

    cands = [a for a in cm if "center" in cm[a] and "outer" in cm[a]]
    if not cands:
        return
    a = cands[0]
    n = ds.sizes[cm[a]["center"]]
    da = xr.DataArray(gen.quarter_data(desc["dseed"], [2, n]), dims=["time", cm[a]["center"]])
    fv = FILLS[desc["dseed"] % len(FILLS)]

    def f(x):
        return np.cumsum(x, axis=-1)

    sig = "(D:center)->(D:outer)"
    ctx.judged(("pad_before_func", "definition-vs-call"), True)
    try:
        gu = as_grid_ufunc(signature=sig, boundary_width={"D": (1, 0)}, boundary="fill", fill_value=fv, pad_before_func=False)(f)
        r1 = gu(g, da, axis=[(a,)])
        r2 = apply_as_grid_ufunc(f, da, axis=[(a,)], grid=g, signature=sig, boundary_width={"D": (1, 0)}, boundary="fill",
                                 fill_value=fv, pad_before_func=False)
        gu3 = as_grid_ufunc(signature=sig, boundary_width={"D": (1, 0)})(f)
        r3 = gu3(g, da, axis=[(a,)], boundary="fill", fill_value=fv, pad_before_func=False)
        exp = np.concatenate([np.full((2, 1), float(fv)), np.cumsum(da.values, -1)], -1)
        r4 = g.apply_as_grid_ufunc(f, da, axis=[(a,)], signature=sig, boundary_width={"D": (1, 0)}, boundary="fill",
                                   fill_value=fv, pad_before_func=False)
        for nm, r in (("definition", r1), ("apply", r2), ("call", r3), ("Grid-method", r4)):
            if tuple(r.dims) != ("time", cm[a]["outer"]) or not np.array_equal(r.values, exp):
                ctx.violation("pad_before_func-binding", f"pad_before_func=False given at {nm} level: result differs from apply-then-pad model")
                return
    except Exception as e:
        ctx.violation("pad_before_func-binding", f"raised {type(e).__name__}: {str(e)[:200]}")


def dask_binding_scenario(ctx, desc, g, ds, cm):
    """dask= and map_overlap= bound at definition time act as if passed at call time; call-time values override."""
    import dask
    import xarray as xr
    from xgcm import apply_as_grid_ufunc, as_grid_ufunc

    cands = [a for a in cm if "center" in cm[a] and ("left" in cm[a] or "right" in cm[a])]
    if not cands:
        return
    a = cands[desc["dseed"] % len(cands)]
    to = "left" if "left" in cm[a] else "right"
    n = ds.sizes[cm[a]["center"]]
    # half of the cases (when the grid has a second axis) use a two-axis argument of which only the first is padded; the
    # second core dimension stays in one chunk
    # (second axis on center/left/right only: an explicit map_overlap with an inner/outer position anywhere in the signature
    # is refused today even for unchunked dimensions, which no statement settles - L4)
    others = [b for b in cm if b != a and set(cm[b]) & {"center", "left", "right"}]
    two = bool(others) and (desc["dseed"] // 3) % 2 == 0
    seen = []
    if two:
        b = others[desc["dseed"] % len(others)]
        pbs = sorted(set(cm[b]) & {"center", "left", "right"})
        pb = pbs[desc["dseed"] % len(pbs)]
        nb = ds.sizes[cm[b][pb]]
        da = xr.DataArray(gen.quarter_data(desc["dseed"] + 7, [2, n, nb]), dims=["time", cm[a]["center"], cm[b][pb]])
        # ... stored in any of the six dimension orders (the broadcast dimension before, between or after the core dims)
        da = da.transpose(*[da.dims[k] for k in np.random.default_rng(desc["dseed"]).permutation(3)])
        sig = f"(D:center,E:{pb})->(D:{to},E:{pb})"
        axis_arg = [(a, b)]

        def f(x):
            seen.append(type(x).__module__.split(".")[0])
            return x[..., 1:, :] - x[..., :-1, :]
    else:
        da = xr.DataArray(gen.quarter_data(desc["dseed"] + 7, [2, n]), dims=["time", cm[a]["center"]])
        sig = f"(D:center)->(D:{to})"
        axis_arg = [(a,)]

        def f(x):
            seen.append(type(x).__module__.split(".")[0])  # numpy blocks (parallelized, map_overlap) or the dask array itself (allowed)
            return x[..., 1:] - x[..., :-1]

    bw = {"D": (1, 0) if to == "left" else (0, 1)}

    kind = ["parallelized", "allowed", "allowed-map_overlap"][(desc["dseed"] // 7) % 3]
    opts = {"dask": "parallelized"} if kind == "parallelized" else {"dask": "allowed"} if kind == "allowed" else {"dask": "allowed", "map_overlap": True}
    lazy = da.chunk({"time": 1, cm[a]["center"]: (1 if kind == "allowed-map_overlap" and n > 1 else -1)})
    rule = gen.RULES[desc["dseed"] % len(gen.RULES)]
    common = dict(boundary=rule, fill_value=2.5)
    ctx.judged(("dask-binding", kind, rule), True)
    try:
        eager = apply_as_grid_ufunc(f, da, axis=axis_arg, grid=g, signature=sig, boundary_width=bw, **common)
        variants = {
            "definition": lambda: as_grid_ufunc(signature=sig, boundary_width=bw, **opts, **common)(f)(g, lazy, axis=axis_arg),
            "call": lambda: as_grid_ufunc(signature=sig, boundary_width=bw, **common)(f)(g, lazy, axis=axis_arg, **opts),
            "call-overrides-forbidden": lambda: as_grid_ufunc(signature=sig, boundary_width=bw, dask="forbidden", **common)(f)(g, lazy, axis=axis_arg, **opts),
            "apply": lambda: apply_as_grid_ufunc(f, lazy, axis=axis_arg, grid=g, signature=sig, boundary_width=bw, **opts, **common),
        }
        handed = {}
        for nm, fn in variants.items():
            del seen[:]
            r = fn()
            if not dask.is_dask_collection(r):
                ctx.violation("dask-options-binding", f"{kind} given at {nm} level: the result of a lazy input is not lazy")
                return
            v = r.compute(scheduler="synchronous")
            if v.dims != eager.dims or not np.array_equal(v.values, eager.values):
                ctx.violation("dask-options-binding", f"{kind} given at {nm} level ({rule}): result differs from the in-memory result")
                return
            handed[nm] = sorted(set(seen))
            ctx.note("array_kinds_handed_to_user_function", (kind, tuple(handed[nm])))
        # what the user function is handed (numpy blocks or the lazy array) is the same wherever the options were given
        if len({tuple(v) for v in handed.values()}) > 1:
            ctx.violation("dask-options-binding", f"{kind}: the user function is handed different array kinds depending on where the options are given: {handed}")
            return
    except Exception as e:
        ctx.violation("dask-options-binding", f"{kind}: raised {type(e).__name__}: {str(e)[:200]}")
        return
    # call-time 'forbidden' overrides a definition-time permission: a lazy input is then refused
    ctx.judged(("dask-binding-override-to-forbidden", kind), True)
    try:
        as_grid_ufunc(signature=sig, boundary_width=bw, **opts, **common)(f)(g, lazy, axis=axis_arg, dask="forbidden", map_overlap=False)
        ctx.violation("dask-options-binding", f"defined with {opts}, called with dask='forbidden': the lazy input was accepted (call-time value did not override)")
    except Exception:
        pass
