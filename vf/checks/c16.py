"""C16 - the metric registry reflects exactly what was registered, in any batching."""
import itertools
import warnings

import numpy as np

from .. import gen

ID = "C16"
NEEDS_SHIM = False
RULE = (
    "histories of <=4 registration calls (constructor metrics= - possibly naming one axis set twice under different spellings - and set_metrics) over a pool of 6-12 metric variables "
    "(on a dataset whose dimensions have coordinate variables, none, or only some; two variants per (axes, position) slot - the second of a two-axis slot possibly stored with transposed dimensions -, 1-2 axis sets), each call naming 1-3 variables at pairwise different "
    "positions with overwrite True/False and key/value spelled as str/tuple/list; all histories of length <=2 over one "
    "small pool are enumerated exhaustively (600), longer ones are seeded. A shadow registry (slot -> latest variable; "
    "occupied slot without overwrite => refusal, slot unchanged) is advanced on every call and compared behaviourally "
    "after every call (get_metric at every occupied slot must return that variable bit-for-bit; refusals must raise and "
    "leave every slot as it was), and each history is replayed one variable at a time on a fresh Grid: get_metric at "
    "every position must agree. A refused multi-variable call is held to the same equivalence: the variables listed before the refused one are registered, the rest are not. Class = "
    "(history length, per-call (#vars, overwrite, hits occupied slot, constructor?)); non-trivial iff some call names "
    "several variables or hits an occupied slot."
)
REQUIRED_REACH = ["xgcm.grid.Grid.set_metrics", "xgcm.grid.Grid.get_metric"]
EXHAUSTIVE = {"quick": False, "thorough": False}
EXHAUSTIVE_NOTE = "the 600 histories of length <=2 over the small pool (axis X: center,left x 2 variants) are enumerated completely in both tiers; the rest is sampled"

# ---- exhaustive small pool ---------------------------------------------------------------
SMALL_VARS = [("c_a", "center"), ("c_b", "center"), ("l_a", "left"), ("l_b", "left")]


def _small_calls():
    calls = []
    for v, _ in SMALL_VARS:
        calls.append([v])
    for (v1, p1), (v2, p2) in itertools.permutations(SMALL_VARS, 2):
        if p1 != p2:
            calls.append([v1, v2])
    return [(c, ow) for c in calls for ow in (False, True)]


SMALL_CALLS = _small_calls()
SMALL_HIST = [[c] for c in SMALL_CALLS] + [[a, b] for a in SMALL_CALLS for b in SMALL_CALLS]
N_RANDOM = {"quick": 1400, "thorough": 150000}
BUDGET = {t: len(SMALL_HIST) + n for t, n in N_RANDOM.items()}
MIN_EVALS = {"quick": 4000, "thorough": 100000}


def gen_case(rng, i, tier):
    if i < len(SMALL_HIST):
        layout = {"axes": [{"name": "X", "pos": [["center", "x_c"], ["left", "x_l"]], "n": 3}]}
        pool = [{"name": v, "axes": ["X"], "pos": [p]} for v, p in SMALL_VARS]
        hist = [{"ctor": False, "axes": ["X"], "vars": c, "overwrite": ow, "kspell": "tuple", "vspell": "list"} for c, ow in SMALL_HIST[i]]
        return {"layout": layout, "pool": pool, "history": hist, "mseed": 12345, "family": "exhaustive-small"}
    nax = rng.randint(1, 2)
    layout = gen.random_layout(rng, nax=nax, nmin=2, nmax=gen.deep(rng, tier, 4, 7), p=0.6, at_least=2)
    axn = [a["name"] for a in layout["axes"]]
    cm = gen.layout_coords(layout)
    sets = [[axn[0]]]
    if nax == 2:
        sets.append(rng.choice([[axn[1]], [axn[0], axn[1]]]))
    pool = []
    for s in sets:
        slots = list(itertools.product(*[list(cm[a]) for a in s]))
        rng.shuffle(slots)
        for pos in slots[: rng.randint(2, 4)]:
            for variant in "ab":
                # a two-axis metric may be stored with its dimensions in either order: the slot is the same
                pool.append({"name": f"m{len(pool)}", "axes": s, "pos": list(pos), "transposed": len(s) == 2 and variant == "b" and rng.random() < 0.6})
    hist = []
    first_ctor = rng.random() < 0.5
    for k in range(rng.randint(1, 4)):
        s = rng.choice(sets)
        cands = [v for v in pool if v["axes"] == s]
        rng.shuffle(cands)
        chosen, seen = [], set()
        for v in cands:
            if tuple(v["pos"]) not in seen and len(chosen) < rng.choice([1, 1, 2, 2, 3]):
                chosen.append(v["name"])
                seen.add(tuple(v["pos"]))
        hist.append({
            "ctor": first_ctor and k == 0, "axes": s, "vars": chosen, "overwrite": rng.random() < 0.5,
            "kspell": rng.choice(["tuple", "list", "str"]) if len(s) == 1 else rng.choice(["tuple", "list"]),
            "vspell": "str" if len(chosen) == 1 and rng.random() < 0.5 else "list",
        })
    if hist and hist[0]["ctor"] and len(hist) > 1 and hist[1]["axes"] == hist[0]["axes"] and rng.random() < 0.6:
        # the constructor's mapping may name the same axis set twice under different spellings ('X' and ('X',),
        # ('X','Y') and ('Y','X')): two entries, registered one after the other like two calls without overwrite
        hist[1]["ctor"] = True
        hist[1]["overwrite"] = False
        hist[1]["kspell"] = "str" if (len(hist[0]["axes"]) == 1 and hist[0]["kspell"] != "str") else "reversed-tuple"
        if hist[0]["kspell"] not in ("tuple", "str"):
            hist[0]["kspell"] = "tuple"
        if len(hist[0]["axes"]) == 1 and hist[1]["kspell"] == "reversed-tuple":
            hist[1]["ctor"] = False  # a one-axis set has no second tuple spelling
    # the dataset's dimensions may come without coordinate variables ("dimensions without coordinates"): all, none, some
    alld = [d for a in axn for d in cm[a].values()]
    k = rng.random()
    withdim = True if k < 0.6 else (False if k < 0.8 else [d for d in alld if rng.random() < 0.5])
    return {"layout": layout, "pool": pool, "history": hist, "mseed": rng.getrandbits(31), "family": "seeded", "withdim": withdim}


def build_ds(desc):
    ds = gen.build_ds(desc["layout"], with_coords=desc.get("withdim", True))
    cm = gen.layout_coords(desc["layout"])
    r = np.random.default_rng(desc["mseed"])
    for v in desc["pool"]:
        dims = [cm[a][p] for a, p in zip(v["axes"], v["pos"])]
        if v.get("transposed"):
            dims = dims[::-1]
        shp = [ds.sizes[d] for d in dims]
        # distinct values per variable so that a returned metric identifies the variable it came from
        ds[v["name"]] = (dims, r.integers(1, 1000, size=shp).astype(float) + (hash(v["name"]) % 1) )
    return ds, cm


def spell_key(call):
    s = call["axes"]
    if call["kspell"] == "str":
        return s[0]
    return tuple(s) if call["kspell"] == "tuple" else list(s)


def spell_val(call):
    return call["vars"][0] if call["vspell"] == "str" else list(call["vars"])


def probe_all(g, ds, cm, desc):
    """get_metric at every position tuple of every axis set of the pool -> {(axes, pos): ('ok', dims, bytes) | ('raise', type)}"""
    import xarray as xr

    out = {}
    sets = []
    for v in desc["pool"]:
        if v["axes"] not in sets:
            sets.append(v["axes"])
    for s in sets:
        for pos in itertools.product(*[list(cm[a]) for a in s]):
            dims = [cm[a][p] for a, p in zip(s, pos)]
            arr = xr.DataArray(np.zeros([ds.sizes[d] for d in dims]), dims=dims)
            with warnings.catch_warnings():
                warnings.simplefilter("ignore")
                try:
                    m = g.get_metric(arr, s)
                    m = m.transpose(*[d for d in dims if d in m.dims])
                    out[(tuple(s), tuple(pos))] = ("ok", tuple(m.dims), m.values.tobytes())
                except Exception as e:
                    out[(tuple(s), tuple(pos))] = ("raise", type(e).__name__)
    return out


def run_case(ctx, desc):
    from xgcm import Grid

    ds, cm = build_ds(desc)
    pool = {v["name"]: v for v in desc["pool"]}
    hist = desc["history"]
    shadow = {}  # (axes tuple sorted, pos tuple) -> var name

    def slot(vn):
        v = pool[vn]
        return (tuple(sorted(v["axes"])), tuple(p for _, p in sorted(zip(v["axes"], v["pos"]))))

    def check_registry(g, where):
        import xarray as xr

        for (axes, pos), vn in shadow.items():
            v = pool[vn]
            dims = list(ds[vn].dims)
            arr = xr.DataArray(np.zeros([ds.sizes[d] for d in dims]), dims=dims)
            try:
                with warnings.catch_warnings():
                    warnings.simplefilter("ignore")
                    m = g.get_metric(arr, v["axes"])
            except Exception as e:
                ctx.violation("slot-holds-latest", f"{where}: get_metric for slot {axes}@{pos} raised {type(e).__name__}: {str(e)[:100]}")
                return False
            if set(m.dims) != set(dims) or not np.array_equal(m.transpose(*dims).values, ds[vn].values):
                holder = [n for n in pool if set(ds[n].dims) == set(m.dims) and np.array_equal(m.transpose(*ds[n].dims).values, ds[n].values)]
                ctx.violation("slot-holds-latest", f"{where}: slot {axes}@{pos} should hold {vn}, get_metric returned {holder or 'something else (interpolated?)'}")
                return False
        return True

    flat = []  # the same registrations one variable at a time
    g = None
    feats = []
    ended = None
    for k, call in enumerate(hist):
        hits = [vn for vn in call["vars"] if slot(vn) in shadow]
        refused = bool(hits) and not call["overwrite"]
        feats.append((len(call["vars"]), call["overwrite"], bool(hits), call["ctor"]))
        if call["ctor"] and k == 1:
            continue  # second constructor entry: handled together with the first
        if call["ctor"]:
            entries = {(call["axes"][0] if call["kspell"] == "str" else tuple(call["axes"])): spell_val(call)}
            second = hist[1] if len(hist) > 1 and hist[1]["ctor"] else None
            if second is not None:
                key2 = second["axes"][0] if second["kspell"] == "str" else tuple(reversed(second["axes"]))
                entries[key2] = spell_val(second)
            # model: the entries are registered in order, without overwrite
            for vn in call["vars"]:
                shadow[slot(vn)] = vn
                flat.append((call["axes"], vn, True))
            refused2 = second is not None and any(slot(vn) in shadow for vn in second["vars"])
            try:
                g = Grid(ds, coords=cm, periodic=False, autoparse_metadata=False, metrics=entries)
                raised = None
            except Exception as e:
                raised = e
            ctx.judged(("ctor", len(call["vars"]), None if second is None else (len(second["vars"]), refused2)), second is not None)
            if refused2:
                if raised is None:
                    ctx.violation("occupied-slot-refused", f"Grid(metrics={entries}): the second entry registers into a slot the first one occupies, "
                                                           f"without overwrite, but the constructor accepted it")
                return
            if raised is not None:
                ctx.violation("registration-accepted", f"Grid(metrics={entries}) raised {type(raised).__name__}: {str(raised)[:150]}")
                return
            if second is not None:
                feats.append((len(second["vars"]), False, False, True))
                for vn in second["vars"]:
                    shadow[slot(vn)] = vn
                    flat.append((second["axes"], vn, True))
        else:
            if g is None:
                g = Grid(ds, coords=cm, periodic=False, autoparse_metadata=False)
            before = probe_all(g, ds, cm, desc) if refused else None
            try:
                g.set_metrics(spell_key(call), spell_val(call), overwrite=call["overwrite"])
                raised = None
            except Exception as e:
                raised = e
            ctx.judged(("call", k, feats[-1]), len(call["vars"]) > 1 or bool(hits))
            if refused:
                if raised is None:
                    ctx.violation("occupied-slot-refused", f"call {k} {call} registers into occupied slot(s) of {hits} without overwrite but was accepted")
                    return
                if len(call["vars"]) == 1:
                    after = probe_all(g, ds, cm, desc)
                    if after != before:
                        ctx.violation("refusal-leaves-registry", f"refused call {k} {call} changed what get_metric returns")
                        return
                else:
                    # "registering several variables in one call is equivalent to registering them one at a time, in
                    # the same order": the variables listed before the first refused one are registered, the rest not
                    for vn in call["vars"]:
                        flat.append((call["axes"], vn, False))  # the replay refuses the same one and stops there too
                        if slot(vn) in shadow:
                            break
                        shadow[slot(vn)] = vn
                    if not check_registry(g, f"after refused call {k} {call['vars']} (variables before the refused one are registered, occupied slots unchanged)"):
                        return
                    continue
            else:
                if raised is not None:
                    ctx.violation("registration-accepted", f"call {k} {call} raised {type(raised).__name__}: {str(raised)[:150]}")
                    return
                for vn in call["vars"]:
                    shadow[slot(vn)] = vn
                    flat.append((call["axes"], vn, True))
        if not check_registry(g, f"after call {k} {call['vars']} overwrite={call['overwrite']}"):
            return
    if ctx.evaluations % 80 == 1:
        ctx.sample({"history": hist, "pool": desc["pool"], "shadow": {str(k): v for k, v in shadow.items()}})
    if g is None or ended is not None:
        return
    # batching differential: the same registrations one at a time, same order, on a fresh Grid
    ctx.judged(("batching", len(hist), feats), any(f[0] > 1 for f in feats))
    g2 = Grid(ds, coords=cm, periodic=False, autoparse_metadata=False)
    for axes, vn, ow in flat:
        try:
            g2.set_metrics(tuple(axes), vn, overwrite=ow)
        except Exception as e:
            if ow:
                ctx.violation("batching-equivalence", f"one-at-a-time replay raised {type(e).__name__}: {str(e)[:150]}")
                return
    a, b = probe_all(g, ds, cm, desc), probe_all(g2, ds, cm, desc)
    if a != b:
        diff = [k for k in a if a[k] != b.get(k)]
        ctx.violation("batching-equivalence", f"get_metric differs between the history and its one-at-a-time replay at {diff[:3]}; history {[(c['vars'], c['overwrite']) for c in hist]}")
