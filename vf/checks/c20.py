"""C20 - ill-posed requests raise instead of returning an array."""
import copy
import warnings

import numpy as np

from .. import gen
from ..models import resolve, stencil
from . import c01, c09, c11

ID = "C20"
NEEDS_SHIM = True
BUDGET = {"quick": 2400, "thorough": 320000}
MIN_EVALS = {"quick": 2000, "thorough": 60000}
ASSUMPTIONS = ["transform refusals are observed on the pure-Python numba stand-in /verif/vf/shim/numba"]
RULE = (
    "edit engine over the corpora of the other checks: a valid call is drawn from the generators of C01 (diff/interp/min/max), "
    "C09 (cumsum/cumint), C11 (grid ufuncs) or a transform / metric-operation template, executed once to make sure it is "
    "accepted, and then ONE ill-posing edit from the listed classes is applied: unknown axis (replacing or added), data "
    "without / with two dimensions of the axis, `to` = same position / a position the axis lacks / an unknown word, unknown "
    "boundary word (scalar, for the operated axis, for another axis), non-numeric fill value (strings incl. numeric-looking ones such as '1', 'nan', '1e3', bytes, object(); scalar or in a "
    "mapping), an unknown position word in a grid-ufunc signature (input, output or appended argument), transform along a periodic axis, non-monotonic or repeated conservative bins (float64, float32, int64, uint8, uint16), an unknown position word in the Grid's default_shifts with `to` left out, a ufunc input carrying two dimensions of one axis, conservative transform "
    "without outer, each ufunc input in turn on a wrong position, wrong number of inputs, wrong number / arity of axis "
    "entries. Every edit is tagged consulted / unconsulted (e.g. a bogus word for a shift that needs no padding). Oracle: "
    "no array may come back - any exception type is acceptance. Class = (corpus, edit, consulted, operator/shift "
    "features); non-trivial always (each case is an ill-posed request)."
)
REQUIRED_REACH = ["xgcm.grid.Grid._get_dims_from_axis", "xgcm.axis.Axis._get_position_name", "xgcm.grid._select_grid_ufunc",
                  "xgcm.grid_ufunc._identify_dummy_axes_with_real_axes", "xgcm.transform.transform", "xgcm.transform.interp_1d_conservative"]

OPS_EDITS = ["unknown-axis", "unknown-axis-added", "data-lacks-dim", "data-two-dims", "to-same", "to-lacking", "to-unknown-word",
             "boundary-unknown-scalar", "boundary-unknown-operated", "boundary-unknown-other", "fill-nonnumeric-scalar", "fill-nonnumeric-mapping",
             "fill-object", "default-shift-unknown-word"]
UFUNC_EDITS = ["misplaced-input", "extra-input", "missing-input", "axis-entries-extra", "axis-entries-missing", "axis-arity", "unknown-axis",
               "boundary-unknown-scalar", "position-lacking", "signature-unknown-position-word", "signature-unknown-position-word",
               "other-component-count", "input-two-dims", "input-two-dims"]
TRANSFORM_EDITS = ["periodic-axis", "nonmonotonic-bins", "repeated-bins", "no-outer", "unknown-axis"]
METRIC_EDITS = ["unknown-axis", "data-lacks-dim", "data-two-dims", "data-two-dims", "no-metric"]


def gen_case(rng, i, tier):
    corpus = ["ops", "ops", "ops", "cumsum", "cumsum", "ufunc", "ufunc", "transform", "metric", "ops"][i % 10]
    if corpus == "ops":
        base = c01.gen_case(rng, i, tier)
        return {"corpus": corpus, "base": base, "edit": rng.choice(OPS_EDITS), "pick": rng.getrandbits(16)}
    if corpus == "cumsum":
        base = c09.gen_case(rng, i, tier)
        base["call"].pop("metric_weighted", None)
        base["cumint"] = rng.random() < 0.3
        return {"corpus": corpus, "base": base, "edit": rng.choice(OPS_EDITS), "pick": rng.getrandbits(16)}
    if corpus == "ufunc":
        base = c11.gen_case(rng, i, tier)
        base["mode"] = rng.choice(["apply", "decorator"])
        base["misplace"] = False
        return {"corpus": corpus, "base": base, "edit": rng.choice(UFUNC_EDITS), "pick": rng.getrandbits(16)}
    if corpus == "transform":
        return {"corpus": corpus, "edit": rng.choice(TRANSFORM_EDITS), "method": rng.choice(["linear", "log", "conservative"]),
                "n": rng.randint(2, 5), "pick": rng.getrandbits(16), "extra_pos": rng.sample(["left", "right", "inner"], rng.choice([0, 1]))}
    base = c09.gen_case(rng, i, tier)
    return {"corpus": corpus, "base": base, "edit": rng.choice(METRIC_EDITS), "op": rng.choice(["integrate", "average", "get_metric", "derivative", "cumint"]),
            "pick": rng.getrandbits(16)}


# strings (also those that merely *look* like numbers) and bytes are not numbers
NONNUMERIC = ["a", "1", "nan", "1e3", "-inf", " 2 ", "", b"1", "abc"]


class _NotNumber:
    def __repr__(self):
        return "<object>"


def is_array_like(r):
    import xarray as xr

    if isinstance(r, (xr.DataArray, xr.Dataset, np.ndarray)):
        return True
    if isinstance(r, (tuple, list)):
        return any(is_array_like(x) for x in r)
    if isinstance(r, dict):
        return any(is_array_like(x) for x in r.values())
    return hasattr(r, "dask") or hasattr(r, "dims")


def call_outcome(f):
    try:
        with warnings.catch_warnings():
            warnings.simplefilter("ignore")
            r = f()
        return ("return", r)
    except Exception as e:
        return ("raise", e)


# ---------------------------------------------------------------------------------------------------
def run_ops(ctx, desc, cumsum):
    import xarray as xr

    base = desc["base"]
    call = base["call"]
    cm = gen.layout_coords(base["layout"])
    axn = [a["name"] for a in base["layout"]["axes"]]
    try:
        if cumsum:
            ds, g = c09.build(base)
        else:
            ds, g = c01.make_grid(base)
    except Exception:
        ctx.count("base_invalid")
        return
    da = c01.make_da(base, ds)
    opax, to_eff = c01.effective_to(base)
    op = ("cumint" if base.get("cumint") else "cumsum") if cumsum else call["op"]
    kw = {k: call[k] for k in ("to", "boundary", "fill_value") if k in call}
    axis = call["axis"]
    ok = call_outcome(lambda: getattr(g, op)(da, axis, **kw))
    if ok[0] != "return":
        ctx.count("base_invalid")
        return
    edit = desc["edit"]
    pick = desc["pick"]
    a = opax[pick % len(opax)]
    frm = base["pos"][a]
    kw2 = copy.deepcopy(kw)
    axis2 = list(opax)
    da2 = da
    consulted = True
    rules = {x: resolve.in_force(x, base["ctor"], call) for x in opax}

    def needs_pad(x):
        if cumsum:
            return (base["pos"][x], to_eff[x]) in {("center", "left"), ("right", "center"), ("center", "outer"), ("inner", "center")}
        return stencil.depends_on_boundary(base["pos"][x], to_eff[x])

    if edit == "unknown-axis":
        axis2[axis2.index(a)] = "Qx_unknown"
        kw2 = {k: v for k, v in kw2.items() if not isinstance(v, dict)}
    elif edit == "unknown-axis-added":
        axis2.append("Qx_unknown")
        if isinstance(kw2.get("to"), dict):
            kw2["to"] = dict(kw2["to"], Qx_unknown="center")
    elif edit == "data-lacks-dim":
        d = cm[a][frm]
        da2 = da.isel({d: 0}, drop=True)
    elif edit == "data-two-dims":
        others = [p for p in cm[a] if p != frm]
        d2 = cm[a][others[pick % len(others)]]
        da2 = da.expand_dims({d2: ds.sizes[d2]}) if ds.sizes[d2] > 0 else None
        if da2 is None:
            return
    elif edit == "to-same":
        kw2["to"] = frm if len(opax) == 1 else {x: (frm if x == a else to_eff[x]) for x in opax}
    elif edit == "to-lacking":
        lacking = [p for p in gen.POSITIONS if p not in cm[a]]
        if not lacking:
            return
        t = lacking[pick % len(lacking)]
        kw2["to"] = t if len(opax) == 1 else {x: (t if x == a else to_eff[x]) for x in opax}
    elif edit == "to-unknown-word":
        # unknown words include mis-spellings of the very position the call would otherwise move to (blanks inside or around it)
        w = to_eff[a]
        t = ["middle", "centre", "Center", "lef", "", w[:2] + " " + w[2:], " " + w, w + " "][pick % 8]
        kw2["to"] = t if len(opax) == 1 else {x: (t if x == a else to_eff[x]) for x in opax}
    elif edit == "default-shift-unknown-word":
        # the unknown position word comes in through the Grid's default_shifts and the call leaves `to` out; refusing at
        # construction is as good as refusing the call
        w = to_eff[a]
        t = ["middle", "centre", w[:2] + " " + w[2:], " " + w, w + " ", "Center"][pick % 6]
        kw2.pop("to", None)
        if len(opax) > 1:
            kw2["to"] = {x: to_eff[x] for x in opax if x != a}
            if not kw2["to"]:
                kw2.pop("to")
        b2 = copy.deepcopy(base)
        b2["ctor"]["default_shifts"] = {a: {frm: t}}

        def shifted_call():
            g2 = (c09.build(b2) if cumsum else c01.make_grid(b2))[1]
            return getattr(g2, op)(da2, axis2, **kw2)

        res = call_outcome(shifted_call)
        judge(ctx, desc, ("cumsum" if cumsum else "ops", edit, True, op, len(opax)), res,
              f"{op}(axis={axis2}, {kw2}) on a Grid with default_shifts={{{a!r}: {{{frm!r}: {t!r}}}}} [{edit}]", edit, True)
        return
    elif edit == "boundary-unknown-scalar":
        kw2["boundary"] = BADWORDS[pick % len(BADWORDS)]
        consulted = any(needs_pad(x) for x in opax)
    elif edit == "boundary-unknown-operated":
        b = kw.get("boundary")
        m = dict(b) if isinstance(b, dict) else ({x: b for x in axn} if b is not None else {})
        m[a] = BADWORDS[pick % len(BADWORDS)]
        kw2["boundary"] = m
        consulted = needs_pad(a)
    elif edit == "boundary-unknown-other":
        rest = [x for x in axn if x not in opax]
        if not rest:
            return
        b = kw.get("boundary")
        m = dict(b) if isinstance(b, dict) else ({x: b for x in axn} if b is not None else {})
        m[rest[0]] = "bogus"
        kw2["boundary"] = m
        consulted = False
    elif edit in ("fill-nonnumeric-scalar", "fill-object"):
        kw2["fill_value"] = NONNUMERIC[pick % len(NONNUMERIC)] if edit == "fill-nonnumeric-scalar" else _NotNumber()
        consulted = any(needs_pad(x) and resolve.in_force(x, base["ctor"], dict(call, fill_value=None))[0] == "fill" for x in opax)
    elif edit == "fill-nonnumeric-mapping":
        f = kw.get("fill_value")
        m = dict(f) if isinstance(f, dict) else ({x: f for x in axn} if f is not None else {})
        m[a] = NONNUMERIC[pick % len(NONNUMERIC)]
        kw2["fill_value"] = m
        consulted = needs_pad(a) and rules[a][0] == "fill"
    axis_arg = axis2 if (len(axis2) > 1 or isinstance(axis, list)) else axis2[0]
    res = call_outcome(lambda: getattr(g, op)(da2, axis_arg, **kw2))
    ckey = ("cumsum" if cumsum else "ops", edit, consulted, op, len(opax))
    judge(ctx, desc, ckey, res, f"{op}(axis={axis_arg}, {kw2}) [{edit}, shift {frm}->{to_eff[a]}, consulted={consulted}]", edit, consulted)


# words that are no boundary rule: misspellings, other libraries' words, and the empty word (falsy: a completion of options
# written `given or default` would drop it unseen)
BADWORDS = ["bogus", "wrap", "Fill", "constant", "edge", "", "None"]


def judge(ctx, desc, ckey, res, what, edit, consulted):
    ctx.judged(ckey, True)
    if ctx.evaluations % 60 == 1:
        ctx.sample({"edit": edit, "consulted": consulted, "call": what, "outcome": res[0] if res[0] == "return" else type(res[1]).__name__})
    if res[0] == "raise":
        ctx.note("refusal_exception_types", type(res[1]).__name__)
        return
    if is_array_like(res[1]):
        ctx.count(f"slipped:{ckey[0]}:{edit}:{'consulted' if consulted else 'unconsulted'}")
        ctx.violation("ill-posed-request-refused", f"returned {type(res[1]).__name__} instead of raising: {what}", mechanism=None)
    else:
        ctx.count("returned_non_array")


def run_ufunc(ctx, desc):
    import xarray as xr
    from xgcm import Grid, apply_as_grid_ufunc, as_grid_ufunc

    b = desc["base"]
    cm = gen.layout_coords(b["layout"])
    ds = gen.build_ds(b["layout"], extra={"time": 2})
    ctor = {k: v for k, v in b["ctor"].items() if v is not None or k == "periodic"}
    g = Grid(ds, coords=cm, autoparse_metadata=False, **ctor)
    bind, ins, outs = b["bind"], b["ins"], b["outs"]
    sig = c11.render(ins, outs)
    args = [xr.DataArray(np.zeros([ds.sizes[d] for d in dims]), dims=dims) for dims in b["args"]]
    axis = [tuple(bind[d] for d, _ in arg) for arg in ins]
    outsizes = [[ds.sizes[cm[bind[d]][p]] for d, p in o] for o in outs]
    bw = {d: tuple(w) for d, w in b["bw"].items()}

    def body(*a):
        lead = np.broadcast_shapes(*[x.shape[: x.ndim - len(arg)] for x, arg in zip(a, ins)]) if len(a) == len(ins) else ()
        res = tuple(np.zeros(lead + tuple(s)) for s in outsizes)
        return res if len(res) > 1 else res[0]

    def invoke(args_, axis_, sig_=sig, **kw):
        if b["mode"] == "apply":
            return apply_as_grid_ufunc(body, *args_, axis=axis_, grid=g, signature=sig_, boundary_width=bw, **kw)
        return as_grid_ufunc(signature=sig_, boundary_width=bw)(body)(g, *args_, axis=axis_, **kw)

    if call_outcome(lambda: invoke(args, axis, boundary="fill"))[0] != "return":
        ctx.count("base_invalid")
        return
    edit, pick = desc["edit"], desc["pick"]
    k = pick % len(ins)
    args2, axis2, sig2, kw = list(args), list(axis), sig, {"boundary": "fill"}
    consulted = True
    if edit == "misplaced-input":
        d0, p0 = ins[k][pick % len(ins[k])]
        alts = [p for p in cm[bind[d0]] if p != p0]
        dims2 = [cm[bind[d0]][alts[pick % len(alts)]] if d == cm[bind[d0]][p0] else d for d in b["args"][k]]
        args2[k] = xr.DataArray(np.zeros([ds.sizes[d] for d in dims2]), dims=dims2)
    elif edit == "input-two-dims":
        # one input carries a second dimension of an axis the signature names for it (another position of that axis)
        d0, p0 = ins[k][pick % len(ins[k])]
        alts = [p for p in cm[bind[d0]] if p != p0 and ds.sizes[cm[bind[d0]][p]] > 0 and cm[bind[d0]][p] not in b["args"][k]]
        if not alts:
            return
        d2 = cm[bind[d0]][alts[pick % len(alts)]]
        args2[k] = args[k].expand_dims({d2: ds.sizes[d2]})
        consulted = any(max(w) > 0 for w in bw.values())
    elif edit == "extra-input":
        args2.append(args[k])
    elif edit == "missing-input":
        if len(ins) == 1:
            return
        args2.pop(k)
    elif edit == "axis-entries-extra":
        axis2.append(axis[k])
    elif edit == "axis-entries-missing":
        if len(ins) == 1:
            return
        axis2.pop(k)
    elif edit == "axis-arity":
        axis2[k] = axis[k] + (axis[k][0],) if len(axis[k]) == 1 else axis[k][:1]
    elif edit == "unknown-axis":
        axis2 = [tuple("Qx_unknown" if x == axis[k][0] else x for x in t) for t in axis]
    elif edit == "boundary-unknown-scalar":
        kw["boundary"] = BADWORDS[pick % len(BADWORDS)]
        consulted = any(max(w) > 0 for w in bw.values())
    elif edit == "position-lacking":
        d0, p0 = ins[k][0]
        lacking = [p for p in gen.POSITIONS if p not in cm[bind[d0]]]
        if not lacking:
            return
        ins2 = [[list(x) for x in arg] for arg in ins]
        ins2[k][0][1] = lacking[0]
        sig2 = c11.render(ins2, outs)
    elif edit == "other-component-count":
        # vector partners in the wrong number: one partner (bare dict or one-element list) for several inputs
        if len(ins) < 2:
            return
        oc = {axis[0][0]: args[0]}
        kw["other_component"] = oc if pick % 2 else [oc]
    elif edit == "signature-unknown-position-word":
        # an unknown position word anywhere in the signature text: in an input, in an output, or in an argument appended
        # after an otherwise complete signature
        word = ["middle", "centre", "Left", "lefty", "edge"][pick % 5]
        where = (pick // 5) % 3
        if where == 0:
            ins2 = [[list(x) for x in arg] for arg in ins]
            ins2[k][0][1] = word
            sig2 = c11.render(ins2, outs)
        elif where == 1 and outs and outs[-1]:
            outs2 = [[list(x) for x in arg] for arg in outs]
            outs2[-1][-1][1] = word
            sig2 = c11.render(ins, outs2)
        else:
            sig2 = sig + f",({ins[0][0][0]}:{word})"
    res = call_outcome(lambda: invoke(args2, axis2, sig2, **kw))
    judge(ctx, desc, ("ufunc", edit, consulted, len(ins), b["mode"]), res, f"grid ufunc {sig2} axis={axis2} n_args={len(args2)} {kw} [{edit}]", edit, consulted)


def run_transform(ctx, desc):
    import xarray as xr
    from xgcm import Grid

    n, method, edit = desc["n"], desc["method"], desc["edit"]
    pos = ["center", "outer"] + desc["extra_pos"]
    if edit == "no-outer":
        method = "conservative"
        pos = ["center"] + (desc["extra_pos"] or ["left"])
    layout = {"axes": [{"name": "Z", "pos": [[p, f"z_{p[:2]}"] for p in pos], "n": n}]}
    ds = gen.build_ds(layout, extra={"col": 2})
    periodic = edit == "periodic-axis"
    kwg = {"periodic": False} if not periodic else [{"periodic": True}, {"boundary": "periodic", "periodic": False}, {"boundary": {"Z": "periodic"}, "periodic": False}][desc["pick"] % 3]
    g = Grid(ds, coords=gen.layout_coords(layout), autoparse_metadata=False, **kwg)
    da = xr.DataArray(gen.quarter_data(desc["pick"], (2, n)), dims=["col", "z_ce"], name="phi")
    if method == "conservative" and "outer" in pos:
        td = xr.DataArray(np.stack([np.arange(n + 1.0) + 1, np.arange(n + 1.0) * 2 + 1]), dims=["col", "z_ou"], name="dens")
    else:
        td = xr.DataArray(np.stack([np.arange(n * 1.0) + 1, np.arange(n * 1.0) * 2 + 1]), dims=["col", "z_ce"], name="dens")
    target = np.array([1.0, 2.5, 4.0, 7.0])
    if edit == "nonmonotonic-bins":
        method = "conservative"
        target = np.array([[1.0, 4.0, 2.5, 7.0], [4.0, 1.0, 2.0, 0.5], [1.0, 2.0, 7.0, 3.0]][desc["pick"] % 3])
    elif edit == "repeated-bins":
        method = "conservative"
        target = np.array([[1.0, 2.5, 2.5, 7.0], [1.0, 1.0, 2.0, 3.0], [7.0, 4.0, 4.0, 1.0]][desc["pick"] % 3])
    bins_dtype = "float64"
    if edit in ("nonmonotonic-bins", "repeated-bins") and (desc["pick"] // 11) % 3 == 0:
        # bins handed over as whole numbers of an integer type (also unsigned: index-like bins)
        bins_dtype = ["int64", "uint8", "uint16", "float32"][(desc["pick"] // 33) % 4]
        target = np.array({"nonmonotonic-bins": [[1, 4, 2, 7], [4, 1, 2, 0], [1, 2, 7, 3]], "repeated-bins": [[1, 2, 2, 7], [1, 1, 2, 3], [7, 4, 4, 1]]}[edit][desc["pick"] % 3]).astype(bins_dtype)
    axis = "Qx_unknown" if edit == "unknown-axis" else "Z"
    if edit in ("nonmonotonic-bins", "repeated-bins") and "outer" in pos and "z_ou" not in td.dims:
        td = xr.DataArray(np.stack([np.arange(n + 1.0) + 1, np.arange(n + 1.0) * 2 + 1]), dims=["col", "z_ou"], name="dens")
    as_da = desc["pick"] % 2 == 0
    tgt = xr.DataArray(target, dims=["lev"]) if as_da else target
    # the other options of transform, valid in themselves, are drawn too: an ill-posed request stays ill-posed with them
    opts = [{}, {"bypass_checks": True}, {"mask_edges": False}, {"bypass_checks": True, "mask_edges": False}, {"suffix": "_x"}][(desc["pick"] // 7) % 5]
    if (desc["pick"] // 3) % 4 == 0:
        opts = dict(opts)
        td_kw = {}  # target_data omitted: the grid's own coordinate
    else:
        td_kw = {"target_data": td}
    if method == "conservative":
        td_kw = {"target_data": td}
    res = call_outcome(lambda: g.transform(da, axis, tgt, method=method, **td_kw, **opts))
    if res[0] == "return" and hasattr(res[1], "compute"):
        res = call_outcome(lambda: res[1].compute())
    judge(ctx, desc, ("transform", edit, True, method, as_da, tuple(sorted(opts)), bool(td_kw), bins_dtype), res,
          f"transform(method={method}, axis={axis}, target={target.tolist()}, options {opts}, target_data {'given' if td_kw else 'omitted'}, grid {kwg}, positions {pos}) [{edit}]", edit, True)


def run_metric(ctx, desc):
    import xarray as xr

    base = desc["base"]
    cm = gen.layout_coords(base["layout"])
    try:
        ds, g = c09.build(base)
    except Exception:
        ctx.count("base_invalid")
        return
    da = c01.make_da(base, ds)
    opax, to_eff = c01.effective_to(base)
    a = opax[0]
    op, edit = desc["op"], desc["edit"]
    frm = base["pos"][a]

    def f(da_, ax):
        if op == "integrate":
            return g.integrate(da_, ax)
        if op == "average":
            return g.average(da_, ax)
        if op == "get_metric":
            return g.get_metric(da_, [ax] if isinstance(ax, str) else ax)
        if op == "derivative":
            return g.derivative(da_, ax, to=to_eff[a], boundary="extend")
        return g.cumint(da_, ax, to=to_eff[a], boundary="fill")

    if call_outcome(lambda: f(da, a))[0] != "return":
        ctx.count("base_invalid")
        return
    if edit == "unknown-axis":
        res = call_outcome(lambda: f(da, ["Qx_unknown"] if desc["pick"] % 2 else "Qx_unknown"))
    elif edit == "data-lacks-dim":
        res = call_outcome(lambda: f(da.isel({cm[a][frm]: 0}, drop=True), a))
    elif edit == "data-two-dims":
        others = [p for p in cm[a] if p != frm and ds.sizes[cm[a][p]] > 0]
        if not others:
            return
        d2 = cm[a][others[desc["pick"] % len(others)]]
        res = call_outcome(lambda: f(da.expand_dims({d2: ds.sizes[d2]}), a if desc["pick"] % 2 else opax))
    else:
        from xgcm import Grid

        g2 = Grid(ds, coords=cm, periodic=False, autoparse_metadata=False)
        res = call_outcome(lambda: getattr(g2, op)(da, a) if op in ("integrate", "average") else g2.get_metric(da, [a]))
        if op in ("derivative", "cumint"):
            res = call_outcome(lambda: getattr(g2, op)(da, a, to=to_eff[a], boundary="fill"))
    judge(ctx, desc, ("metric", edit, True, op), res, f"{op} along {a} [{edit}]", edit, True)


def run_case(ctx, desc):
    c = desc["corpus"]
    if c == "ops":
        return run_ops(ctx, desc, False)
    if c == "cumsum":
        return run_ops(ctx, desc, True)
    if c == "ufunc":
        return run_ufunc(ctx, desc)
    if c == "transform":
        return run_transform(ctx, desc)
    return run_metric(ctx, desc)
