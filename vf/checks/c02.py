"""C02 - boundary rule resolution and padding widths on simple grids."""
import itertools

import numpy as np

from .. import gen
from ..models import resolve
from ..models.pad import pad_axis
from . import c01

ID = "C02"
NEEDS_SHIM = False
BUDGET = {"quick": 3000, "thorough": 400000}
MIN_EVALS = {"quick": 2000, "thorough": 50000}
RULE = (
    "seeded random cases: layout (1-3 axes, 2-6 cells) x constructor spellings (periodic bool/list/mapping; boundary, "
    "fill_value None/scalar/total/partial mapping) x one xgcm.padding.pad call with per-call spellings and asymmetric "
    "widths 0..n per axis (axes optionally omitted), extra dims, shuffled dim order; data float64 (a fifth with NaN / +-inf cells), int64 or uint64 (integer fills up to 2**63). Oracle: resolution model + "
    "hand-written wrap/constant/edge extension; interior and single-axis halo cells strict, corner cells must equal one "
    "of the sequential orders; a later pad on the same Grid with other per-call options (often none) is judged by the rules in force for that call; in a third of the cases the same option objects are then used on a second grid with other settings (judged by that grid's rules); scalar vs total-mapping spellings (call and constructor) must agree bit-for-bit. Class = "
    "per-axis (rule, source of rule, lower>0, upper>0, width>=n), #axes; non-trivial iff some width > 0."
)
REQUIRED_REACH = [
    "xgcm.padding.pad",
    "xgcm.padding._pad_basic",
    "xgcm.grid.Grid._complete_user_kwargs_using_axis_defaults",
    "xgcm.grid.Grid._map_kwargs_over_axes",
]


def gen_case(rng, i, tier):
    layout = gen.random_layout(rng, nmin=2, nmax=gen.deep(rng, tier, 6, 11))
    axn = [a["name"] for a in layout["axes"]]
    cm = gen.layout_coords(layout)
    ctor = c01.gen_ctor(rng, axn, partial_list=True)
    pos = {a: rng.choice(list(cm[a])) for a in axn}
    padax = rng.sample(axn, rng.randint(1, len(axn)))
    sizes = gen.layout_sizes(layout)
    bw = {}
    for a in padax:
        n = sizes[cm[a][pos[a]]]
        m = n if rng.random() < 0.5 else min(n, 2)
        bw[a] = [rng.randint(0, m), rng.randint(0, m)]
    if rng.random() < 0.08:
        for a in bw:
            bw[a] = [0, 0]
    dims = [cm[a][pos[a]] for a in axn if a in padax or rng.random() < 0.5]
    extra = {}
    for e in rng.sample(gen.EXTRA_DIM_POOL, rng.choice([0, 0, 1, 2])):
        extra[e] = rng.randint(1, 3)
        dims.append(e)
    rng.shuffle(dims)
    call = {"boundary_width": bw}
    b = gen.random_spelling(rng, axn, gen.RULES, p_none=0.3)
    f = gen.random_spelling(rng, axn, c01.FILLS, p_none=0.3)
    if b is not None:
        call["boundary"] = b
    if f is not None:
        call["fill_value"] = f
    dtype = rng.choice(["float64"] * 6 + ["int64", "int64", "uint64"])
    if dtype != "float64":
        # integer-typed data (counts, indices, packed ids) with integer fills only, among them integers that float64
        # cannot hold: a fill value must arrive in the new cells as given, not after a detour through a float
        big = [2**53 + 1, 2**62 + 3] + ([-(2**53) - 1] if dtype == "int64" else [2**63 + 5])

        def intfill(v):
            if isinstance(v, dict):
                return {k: intfill(x) for k, x in v.items()}
            if v is None or rng.random() < 0.4 and float(v).is_integer() and (v >= 0 or dtype == "int64"):
                return v
            return rng.choice(big + [5])

        ctor["fill_value"] = intfill(ctor.get("fill_value"))
        if "fill_value" in call:
            call["fill_value"] = intfill(call["fill_value"])
    return {
        "layout": layout, "ctor": ctor, "pos": pos, "dims": dims, "extra": extra,
        # floating-point data may hold missing values and infinities (land points): they are values like any other
        "data": {"kind": "unique" if rng.random() < 0.5 else "quarter", "seed": rng.getrandbits(31), "dtype2": dtype,
                 "holes": dtype == "float64" and rng.random() < 0.2},
        "call": call, "name": "v",
        # a later call on the same Grid with other per-call options (often none at all): every call is resolved afresh
        "later": {"boundary": gen.random_spelling(rng, axn, gen.RULES, p_none=0.6), "fill_value": gen.random_spelling(rng, axn, [0, 7, 2, -3], p_none=0.6)},
    }


def total(spec, axn, default=None):
    """Total-mapping spelling of the same choice (None entries dropped => None)."""
    if spec is None:
        return None
    if isinstance(spec, dict):
        return None  # only scalars are re-spelled
    return {a: spec for a in axn}


def model(desc, vals, dims, order):
    cm = gen.layout_coords(desc["layout"])
    cur = vals
    for a in order:
        lo, hi = desc["call"]["boundary_width"][a]
        rule, fv = resolve.in_force(a, desc["ctor"], desc["call"])
        k = list(dims).index(cm[a][desc["pos"][a]])
        cur = pad_axis(cur, k, lo, hi, rule, fv)
    return cur


def same(a, b):
    """identity of values, missing values (NaN) in the same places"""
    return np.array_equal(a, b, equal_nan=np.asarray(a).dtype.kind == "f" and np.asarray(b).dtype.kind == "f")


KNOWN_PERIODIC_LIST = "periodic-list-unnamed-axis-stays-periodic"


def classify(desc, got, da, order, corner):
    """Mechanism key of the one open finding of this property, decided from the *descriptor* (periodic is a list
    that leaves a padded axis unnamed whose rule falls through to the periodic default) *and* the symptom (the
    output is exactly what the model gives when those axes are treated as periodic)."""
    p = desc["ctor"]["periodic"]
    if not isinstance(p, list):
        return None
    unnamed = [a for a in order if a not in p and resolve._pick(desc["call"].get("boundary"), a) is None
               and resolve._pick(desc["ctor"].get("boundary"), a) is None and max(desc["call"]["boundary_width"][a]) > 0]
    if not unnamed:
        return None
    alt = dict(desc)
    alt["ctor"] = dict(desc["ctor"], periodic=True)
    exp = model(alt, da.values, da.dims, order)
    if got.shape == exp.shape and same(got[~corner], exp[~corner]):
        return KNOWN_PERIODIC_LIST
    return None


def run_case(ctx, desc):
    from xgcm.padding import pad

    call = desc["call"]
    bw = {a: tuple(w) for a, w in call["boundary_width"].items()}
    axn = [a["name"] for a in desc["layout"]["axes"]]
    cm = gen.layout_coords(desc["layout"])
    try:
        ds, g = c01.make_grid(desc)
    except Exception as e:
        ctx.judged(("ctor-raise",), True)
        ctx.violation("grid-constructor-accepts", f"Grid(...) raised {type(e).__name__}: {e}")
        return
    da = c01.make_da(desc, ds)
    dt = desc["data"].get("dtype2", "float64")
    if dt != "float64":
        da = abs(da.round()).astype(dt) if dt == "uint64" else da.round().astype(dt)
    import copy

    # the library is handed its own option objects (the same ones over all calls of this case, as a user's would be);
    # the model reads the descriptor
    if desc["data"].get("holes"):
        vals = np.array(da.values, float)
        flat = vals.reshape(-1)
        hr = np.random.default_rng(desc["data"]["seed"])
        for k, v in zip(hr.integers(0, max(flat.size, 1), size=max(1, flat.size // 4)), [np.nan, np.nan, np.inf, -np.inf, np.nan] * flat.size):
            if flat.size:
                flat[k] = v
        da = da.copy(data=vals)
    kw = copy.deepcopy({k: call[k] for k in ("boundary", "fill_value") if k in call})
    rules = {a: resolve.in_force(a, desc["ctor"], call) for a in bw}
    src = {}
    for a in bw:
        cb, gb = call.get("boundary"), desc["ctor"].get("boundary")
        src[a] = ("call" if cb is not None and (not isinstance(cb, dict) or a in cb)
                  else "grid" if gb is not None and (not isinstance(gb, dict) or a in gb)
                  else "periodic-" + type(desc["ctor"]["periodic"]).__name__)
    sizes = gen.layout_sizes(desc["layout"])
    ckey = [
        (rules[a][0], src[a], bw[a][0] > 0, bw[a][1] > 0, max(bw[a]) >= sizes[cm[a][desc["pos"][a]]])
        for a in sorted(bw)
    ] + ([(dt,)] if dt != "float64" else []) + ([("nan/inf",)] if desc["data"].get("holes") else [])
    nontrivial = any(max(w) > 0 for w in bw.values())
    ctx.judged(ckey, nontrivial)
    try:
        r = pad(da, g, dict(bw), **kw)
    except Exception as e:
        ctx.violation("pad-returns", f"pad raised {type(e).__name__}: {str(e)[:300]}")
        return
    if ctx.evaluations % 60 == 1:
        ctx.sample(desc)
    order = list(bw)
    exp = model(desc, da.values, da.dims, order)
    if set(r.dims) != set(da.dims):
        ctx.violation("pad-dims", f"dims {r.dims} vs input {da.dims}")
        return
    got = r.transpose(*da.dims).values
    if got.shape != exp.shape:
        ctx.violation("pad-widths", f"shape {got.shape}, expected {exp.shape} for widths {bw}")
        return
    # corner mask: cells lying in the halo of two or more axes
    inhalo = np.zeros(exp.shape, dtype=int)
    for a in order:
        k = list(da.dims).index(cm[a][desc["pos"][a]])
        lo, hi = bw[a]
        idx = np.arange(exp.shape[k])
        h = (idx < lo) | (idx >= exp.shape[k] - hi)
        shp = [1] * exp.ndim
        shp[k] = -1
        inhalo = inhalo + h.reshape(shp)
    corner = inhalo >= 2
    if not same(got[inhalo == 0], exp[inhalo == 0]):
        ctx.violation("pad-interior", f"original values moved/changed; widths {bw}")
        return
    if not same(got[~corner], exp[~corner]):
        w = np.argwhere((got != exp) & ~corner)[0]
        ctx.violation("pad-halo", f"halo cell {tuple(w)}: got {got[tuple(w)]} expected {exp[tuple(w)]}; rules {rules} widths {bw} src {src}",
                      mechanism=classify(desc, got, da, order, corner))
        return
    if corner.any():
        ok = any(same(got, model(desc, da.values, da.dims, list(p))) for p in itertools.permutations(order))
        ctx.judged(("corner",) + tuple(map(tuple, ckey)), True)
        if not ok:
            ctx.violation("pad-corner", f"corner cells match no sequential order; rules {rules} widths {bw}")
            return
    # a later call on the same Grid with other per-call options: the rule in force is resolved for every call from that
    # call's arguments and the Grid-level settings, whatever earlier calls were given
    if desc.get("later") is not None:
        later = {k: v for k, v in desc["later"].items() if v is not None}
        if dt != "float64":
            later.pop("fill_value", None)
        dL = dict(desc, call=dict({"boundary_width": call["boundary_width"]}, **later))
        ctx.judged(("later-call", tuple(sorted(later)), bool(kw)) + tuple(map(tuple, ckey)), nontrivial)
        try:
            rL = pad(da, g, dict(bw), **copy.deepcopy(later))
            expL = model(dL, da.values, da.dims, order)
            gotL = rL.transpose(*da.dims).values
            if gotL.shape != expL.shape or not same(gotL[~corner], expL[~corner]):
                ctx.violation("pad-halo", f"a later pad with per-call options {later} on the same Grid (constructed with {desc['ctor']}, first padded with {kw}): "
                                          f"halo differs from the rules in force for that call", mechanism=classify(dL, gotL, da, order, corner))
                return
        except Exception as e:
            ctx.violation("pad-returns", f"a later pad with per-call options {later} on the same Grid raised {type(e).__name__}: {str(e)[:200]}")
            return
    # the very same option objects on a second grid whose own settings differ: what the per-call options leave open comes
    # from the grid of *this* call
    if desc["data"]["seed"] % 3 == 0 and not isinstance(desc["ctor"]["periodic"], list):
        c1 = desc["ctor"]
        rot = lambda v: gen.RULES[(gen.RULES.index(v) + 1) % len(gen.RULES)]  # noqa: E731
        b1, f1 = c1.get("boundary"), c1.get("fill_value")
        ctor2 = {"periodic": {a: not resolve.is_periodic(c1["periodic"], a) for a in axn},
                 "boundary": {a: (rot(v) if v is not None else None) for a, v in b1.items()} if isinstance(b1, dict) else (rot(b1) if b1 is not None else None),
                 "fill_value": {a: (v + 1 if v is not None else None) for a, v in f1.items()} if isinstance(f1, dict) else (f1 + 1 if f1 is not None else 4)}
        d2 = dict(desc, ctor=ctor2)
        ctx.judged(("second-grid",) + tuple(map(tuple, ckey)), nontrivial)
        try:
            _, gB = c01.make_grid(d2)
            rB = pad(da, gB, dict(bw), **kw)
            expB = model(d2, da.values, da.dims, order)
            gotB = rB.transpose(*da.dims).values
            if gotB.shape != expB.shape or not same(gotB[~corner], expB[~corner]):
                ctx.violation("pad-halo", f"the same per-call options {kw} on a second grid {ctor2} (after a call on {c1}): halo differs from that grid's rules")
                return
        except Exception as e:
            ctx.violation("pad-returns", f"pad on a second grid {ctor2} with the same option objects raised {type(e).__name__}: {str(e)[:200]}")
            return
    # interchangeable spellings: scalar call args re-spelled as total mappings
    kw2 = dict(kw)
    changed = False
    for k in ("boundary", "fill_value"):
        t = total(kw.get(k), axn)
        if t is not None:
            kw2[k] = t
            changed = True
    if changed:
        ctx.judged(("respelled-call",) + tuple(map(tuple, ckey)), nontrivial)
        try:
            r2 = pad(da, g, dict(bw), **kw2)
            if not same(r2.transpose(*da.dims).values, got):
                ctx.violation("spelling-equivalence", f"call scalar {kw} vs mapping {kw2} differ")
        except Exception as e:
            ctx.violation("spelling-equivalence", f"mapping spelling {kw2} raised {type(e).__name__}: {str(e)[:200]}")
    # ... and scalar constructor args re-spelled as total mappings / periodic list or bool as mapping
    ctor2 = dict(desc["ctor"])
    changed = False
    for k in ("boundary", "fill_value"):
        t = total(ctor2.get(k), axn)
        if t is not None:
            ctor2[k] = t
            changed = True
    p = ctor2["periodic"]
    if not isinstance(p, dict):
        ctor2["periodic"] = {a: resolve.is_periodic(p, a) for a in axn}
        changed = True
    if changed:
        ctx.judged(("respelled-ctor",) + tuple(map(tuple, ckey)), nontrivial)
        try:
            d2 = dict(desc)
            d2["ctor"] = ctor2
            _, g2 = c01.make_grid(d2)
            r3 = pad(da, g2, dict(bw), **kw)
            if not same(r3.transpose(*da.dims).values, got):
                ctx.violation("spelling-equivalence", f"constructor {desc['ctor']} vs {ctor2} differ")
        except Exception as e:
            ctx.violation("spelling-equivalence", f"constructor spelling {ctor2} raised {type(e).__name__}: {str(e)[:200]}")
