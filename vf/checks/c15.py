"""C15 - grid-ufunc signatures: parse/print are inverse; equivalence is renaming."""
import itertools
import string

import numpy as np

from ..models import signature as sigm

ID = "C15"
NEEDS_SHIM = False
RULE = (
    "enumerated + seeded: (E1, both tiers, exhaustive) every signature with 1-2 inputs, 1 output, one pair per argument, "
    "2 dummy names, 5 positions (1100); (E2, thorough, exhaustive) 1-2 inputs, 1 output, 1-2 pairs, 2 names, 3 positions "
    "(75852); (S) seeded signatures up to 3 inputs x 2 outputs x 2 pairs x 3 names drawn from a pool with hostile "
    "identifiers; for every S signature EVERY single-character deletion, substitution and insertion over the alphabet (now with line break and tab) "
    "'(),:->_Xc1 ' is classified by an independent scanner and compared with accept/reject of from_string; accepted "
    "strings must print back (spaces aside) and re-parse to themselves; Annotated type hints must denote the same "
    "signature; equivalent() is compared with first-appearance canonical equality on bijective renamings (incl. swaps), "
    "single-occurrence mis-renamings and unrelated pairs; Grid.diff must find the predefined operation for axis names "
    "from all ASCII letters and hostile identifiers. Strings containing an empty '()' argument are not judged (statement "
    "silent). Class = (oracle, structure or corruption kind/char/model verdict); non-trivial iff the string differs from "
    "a trivially valid one-argument signature."
)
REQUIRED_REACH = [
    "xgcm.grid_ufunc._GridUFuncSignature.from_string",
    "xgcm.grid_ufunc._GridUFuncSignature.from_type_hints",
    "xgcm.grid_ufunc._GridUFuncSignature.__str__",
    "xgcm.grid_ufunc._GridUFuncSignature.equivalent",
    "xgcm.grid._select_grid_ufunc",
]
EXHAUSTIVE = {"quick": False, "thorough": True}
EXHAUSTIVE_NOTE = "E1 is enumerated completely in both tiers, E2 in the thorough tier; S and the corruptions of S are seeded samples (all corruptions of each sampled string)"
ALPHABET = "(),:->_Xc1 \n\t"  # incl. a line break and a tab: stray characters like any other (a blank is the only insignificant one)
NAME_POOL = ["X", "Y", "Z", "lon", "k1", "_q", "x", "t", "e", "r", "n", "c", "xcenter", "leftover", "inner_x", "XX", "XXY",
             "outerspace", "Right", "a_b_c", "l", "σ", "x_ρ", "ñ"]


def _args(names, positions, maxpairs):
    pairs = [(n, p) for n in names for p in positions]
    out = [[pr] for pr in pairs]
    if maxpairs >= 2:
        out += [[a, b] for a in pairs for b in pairs]
    return out


A1 = _args(["X", "Y"], sigm.POSW, 1)
E1 = [([a], [o]) for a in A1 for o in A1] + [([a, b], [o]) for a in A1 for b in A1 for o in A1]
A2 = _args(["X", "Y"], ["center", "left", "outer"], 2)
N_E2 = (len(A2) + len(A2) ** 2) * len(A2)
OP_NAMES = list(string.ascii_letters) + ["lon", "depth", "xcenter", "leftover", "inner_x", "Right", "tt", "ee", "_x", "x1", "σ", "λ", "x_ρ", "ñ", "zσ"]
N_S = {"quick": 400, "thorough": 6000}
BUDGET = {"quick": len(E1) + N_S["quick"] + len(OP_NAMES), "thorough": len(E1) + N_E2 + N_S["thorough"] + len(OP_NAMES)}
MIN_EVALS = {"quick": 100000, "thorough": 2000000}
MIN_CASES_PER_SHARD = 60


def nth_e2(i):
    n_in = len(A2) + len(A2) ** 2
    ii, oi = divmod(i, len(A2))
    ins = [A2[ii]] if ii < len(A2) else [A2[(ii - len(A2)) // len(A2)], A2[(ii - len(A2)) % len(A2)]]
    return ins, [A2[oi]]


def gen_case(rng, i, tier):
    if i < len(E1):
        ins, outs = E1[i]
        return {"kind": "E1", "ins": ins, "outs": outs}
    i -= len(E1)
    if tier == "thorough":
        if i < N_E2:
            ins, outs = nth_e2(i)
            return {"kind": "E2", "ins": ins, "outs": outs}
        i -= N_E2
    if i < N_S[tier]:
        names = rng.sample(NAME_POOL, rng.randint(1, 3))
        # an argument may carry no pair at all: "()" (a scalar input / output), anywhere in the list
        arg = lambda: [[rng.choice(names), rng.choice(sigm.POSW)] for _ in range(rng.choice([0, 1, 1, 1, 2, 2]))]  # noqa: E731
        ins = [arg() for _ in range(rng.randint(1, 3))]
        if not any(ins):
            ins[0] = [[names[0], "center"]]
        outs = [arg() for _ in range(rng.randint(1, 2))]
        return {"kind": "S", "ins": ins, "outs": outs, "rseed": rng.getrandbits(31),
                "spaces": rng.random() < 0.3}
    i -= N_S[tier]
    return {"kind": "op", "axis_name": OP_NAMES[i % len(OP_NAMES)]}


def tup(args):
    return [[tuple(p) for p in a] for a in args]


def impl_parse(S, text):
    """-> ('ok', sig) | ('reject', exc) | ('crash', exc)"""
    try:
        return "ok", S.from_string(text)
    except ValueError as e:
        return "reject", e
    except Exception as e:  # refusal through another exception type still is a refusal
        return "reject-other", e


def sig_tuple(sig):
    return ([list(zip(n, p)) for n, p in zip(sig.in_ax_names, sig.in_ax_positions)],
            [list(zip(n, p)) for n, p in zip(sig.out_ax_names, sig.out_ax_positions)])


def check_roundtrip(ctx, S, text, parsed, ckey, nontrivial=True):
    ctx.judged(ckey, nontrivial)
    st, sig = impl_parse(S, text)
    if st != "ok":
        ctx.violation("wellformed-accepted", f"well-formed {text!r} rejected: {type(sig).__name__}: {str(sig)[:100]}", desc={"text": text})
        return None
    want = sigm.render(*parsed)
    if str(sig) != want:
        ctx.violation("print-inverse-of-parse", f"{text!r} prints back as {str(sig)!r}, expected {want!r}", desc={"text": text})
        return sig
    st2, sig2 = impl_parse(S, str(sig))
    if st2 != "ok" or str(sig2) != want or sig_tuple(sig2) != sig_tuple(sig):
        ctx.violation("print-inverse-of-parse", f"{text!r}: printed form does not re-parse to itself", desc={"text": text})
    got = sig_tuple(sig)
    if got != (tup(parsed[0]), tup(parsed[1])) and got != parsed:
        ctx.violation("parse-structure", f"{text!r} parsed as {got}, expected {parsed}", desc={"text": text})
    return sig


def check_hints(ctx, S, parsed, ckey):
    from typing import Annotated, Tuple

    from xgcm import as_grid_ufunc

    ins, outs = parsed
    if any(len(a) == 0 for a in ins + outs):
        return
    ctx.judged(("hints",) + tuple(ckey[1:]), True)
    params = [f"a{i}" for i in range(len(ins))]
    ns = {}
    exec(f"def f({', '.join(params)}):\n    return None\n", ns)
    f = ns["f"]
    ann = {p: Annotated[np.ndarray, ",".join(f"{n}:{q}" for n, q in arg)] for p, arg in zip(params, ins)}
    rets = [Annotated[np.ndarray, ",".join(f"{n}:{q}" for n, q in arg)] for arg in outs]
    # a single output may be declared bare or as a one-element tuple: the same signature
    want = sigm.render(ins, outs)
    ann["return"] = (Tuple[rets[0]] if len(want) % 3 == 0 else rets[0]) if len(rets) == 1 else Tuple[tuple(rets)]
    f.__annotations__ = ann
    try:
        gu = as_grid_ufunc()(f)
        if str(gu.signature) != want:
            ctx.violation("hints-equal-string", f"type hints for {want!r} denote {str(gu.signature)!r}", desc={"text": want})
            return
        # the hints denote that signature every time the function is wrapped (say, with other options), not only the first
        gu2 = as_grid_ufunc(boundary_width=None)(f)
        if str(gu2.signature) != want:
            ctx.violation("hints-equal-string", f"type hints for {want!r} denote {str(gu2.signature)!r} when the same function is wrapped a second time", desc={"text": want})
    except Exception as e:
        ctx.violation("hints-equal-string", f"type hints for {want!r} raised {type(e).__name__}: {str(e)[:120]}", desc={"text": want})


def check_equiv(ctx, S, p1, p2, kind):
    t1, t2 = sigm.render(*p1), sigm.render(*p2)
    want = sigm.equivalent(p1, p2)
    ctx.judged(("equivalent", kind, want, len(sigm.names_of(p1))), True)
    try:
        a, b = S.from_string(t1), S.from_string(t2)
        got = bool(a.equivalent(b))
        got_r = bool(b.equivalent(a))
    except Exception as e:
        ctx.violation("equivalent-is-renaming", f"{t1!r} vs {t2!r} raised {type(e).__name__}: {str(e)[:100]}", desc={"a": t1, "b": t2})
        return
    if got != want or got_r != want:
        ctx.violation("equivalent-is-renaming", f"equivalent({t1!r}, {t2!r}) = {got}/{got_r}, consistent renaming: {want} ({kind})",
                      desc={"a": t1, "b": t2, "kind": kind})


def corruptions(s):
    for i in range(len(s)):
        yield "del", s[i], s[:i] + s[i + 1:]
    for i in range(len(s)):
        for ch in ALPHABET:
            if ch != s[i]:
                yield "sub", ch, s[:i] + ch + s[i + 1:]
    for i in range(len(s) + 1):
        for ch in ALPHABET:
            yield "ins", ch, s[:i] + ch + s[i:]


def run_case(ctx, desc):
    from xgcm.grid_ufunc import _GridUFuncSignature as S

    kind = desc["kind"]
    if kind == "op":
        return run_op_case(ctx, desc)
    parsed = (tup(desc["ins"]), tup(desc["outs"]))
    text = sigm.render(*parsed)
    if desc.get("spaces"):
        text = text.replace(",", ", ").replace("->", " -> ").replace(":", ": ", 1)
    struct = (kind, [len(a) for a in parsed[0]], [len(a) for a in parsed[1]], len(sigm.names_of(parsed)))
    assert sigm.parse(text) is not None and sigm.canonical(sigm.parse(text)) == sigm.canonical(parsed)
    if ctx.evaluations % 997 == 0:
        ctx.sample({"signature": text})
    sig = check_roundtrip(ctx, S, text, parsed, ("roundtrip",) + struct, nontrivial=len(parsed[0]) > 1 or len(parsed[0][0]) > 1)
    if kind in ("E1", "S") or ctx.case_index % 7 == 0:
        check_hints(ctx, S, parsed, ("roundtrip",) + struct)
    # equivalence with renamings
    names = sigm.names_of(parsed)
    import random

    rng = random.Random(desc.get("rseed", ctx.case_index))
    if kind in ("E1", "E2"):
        others = ["X", "Y", "Q", "t", "e"]
    else:
        others = NAME_POOL
    # bijective renamings: a swap / rotation of the names present, and a renaming to fresh names
    if len(names) >= 2:
        rot = dict(zip(names, names[1:] + names[:1]))
        check_equiv(ctx, S, parsed, sigm.rename(parsed, rot), "swap")
    fresh = [n for n in others if n not in names]
    rng.shuffle(fresh)
    if len(fresh) >= len(names):
        check_equiv(ctx, S, parsed, sigm.rename(parsed, dict(zip(names, fresh))), "fresh")
    # non-injective renamings: every way of merging two of the names present into one
    if len(names) >= 2 and (kind == "S" or ctx.case_index % 3 == 0):
        import itertools as _it

        for n1, n2 in _it.permutations(names, 2):
            check_equiv(ctx, S, parsed, sigm.rename(parsed, {n1: n2}), "merge-two-names")
    if kind == "S" or ctx.case_index % 5 == 0:
        # single-occurrence mis-renaming: one occurrence gets another name
        occ = [(side, ai, pi) for side in (0, 1) for ai, arg in enumerate(parsed[side]) for pi in range(len(arg))]
        side, ai, pi = occ[rng.randrange(len(occ))]
        bad = ([list(a) for a in parsed[0]], [list(a) for a in parsed[1]])
        cur = bad[side][ai][pi]
        alt = rng.choice([n for n in (names + fresh[:2]) if n != cur[0]] or ["Q9"])
        bad[side][ai][pi] = (alt, cur[1])
        check_equiv(ctx, S, parsed, bad, "mis-renaming")
        # position change of one occurrence
        bad2 = ([list(a) for a in parsed[0]], [list(a) for a in parsed[1]])
        bad2[side][ai][pi] = (cur[0], rng.choice([p for p in sigm.POSW if p != cur[1]]))
        check_equiv(ctx, S, parsed, bad2, "position-changed")
    if kind != "S":
        return
    # every single-character corruption of the canonical text
    base = sigm.render(*parsed)
    for ck, ch, c in corruptions(base):
        model = sigm.parse(c)
        if sigm.has_empty_argument(c):
            ctx.count("not_judged_empty_argument")
            continue
        if model is not None and sigm.uses_position_word_as_name(model):
            ctx.count("not_judged_position_word_as_name")
            continue
        ctx.judged(("corruption", ck, ch, model is not None), True)
        st, res = impl_parse(S, c)
        if model is None:
            if st == "ok":
                ctx.violation("malformed-rejected", f"malformed {c!r} accepted as {str(res)!r} ({ck} {ch!r} in {base!r})",
                              mechanism=None, desc={"text": c, "from": base, "corruption": [ck, ch]})
        else:
            if st != "ok":
                ctx.violation("wellformed-accepted", f"well-formed {c!r} rejected ({ck} {ch!r} in {base!r})",
                              desc={"text": c, "from": base})
            elif str(res) != sigm.render(*model):
                ctx.violation("print-inverse-of-parse", f"{c!r} prints back as {str(res)!r}", desc={"text": c})


def run_op_case(ctx, desc):
    import xarray as xr
    from xgcm import Grid

    a = desc["axis_name"]
    ds = xr.Dataset(coords={"d_c": ("d_c", np.arange(4) + 0.5), "d_l": ("d_l", np.arange(4) * 1.0), "d_o": ("d_o", np.arange(5) * 1.0)})
    g = Grid(ds, coords={a: {"center": "d_c", "left": "d_l", "outer": "d_o"}}, periodic=False, autoparse_metadata=False)
    da = xr.DataArray(np.array([1.0, 4.0, 9.0, 16.0]), dims=["d_c"])
    for op, to, want in [("diff", "left", [1.0, 3.0, 5.0, 7.0]), ("interp", "outer", [0.5, 2.5, 6.5, 12.5, 8.0]),
                         ("max", "left", [1.0, 4.0, 9.0, 16.0]), ("cumsum", "outer", [0.0, 1.0, 5.0, 14.0, 30.0])]:
        ctx.judged(("predefined-op-found", op, len(a), a[0].isupper()), True)
        try:
            r = getattr(g, op)(da, a, to=to, boundary="fill", fill_value=0)
            if not np.array_equal(r.values, np.array(want)):
                ctx.violation("predefined-op-for-any-axis-name", f"{op} along axis {a!r} gives {r.values.tolist()}", desc=desc)
        except Exception as e:
            ctx.violation("predefined-op-for-any-axis-name", f"{op} along axis named {a!r} raised {type(e).__name__}: {str(e)[:120]}", desc=desc)
