"""C18 - operations never modify their arguments; results are history-independent."""
import warnings

import numpy as np

from .. import gen, snapshot
from ..models import topo

ID = "C18"
NEEDS_SHIM = True
BUDGET = {"quick": 1100, "thorough": 40000}
MIN_EVALS = {"quick": 4000, "thorough": 150000}
ASSUMPTIONS = ["transform calls run on the pure-Python numba stand-in /verif/vf/shim/numba"]
RULE = (
    "seeded random histories: a 'world' of argument objects is built once (dataset, Grid, data arrays, the dictionaries "
    "passed as vector component, other_component, boundary, fill_value, to, metric_weighted, boundary_width, transform "
    "targets) on a simple grid (2 axes, metrics) or a face-connected grid (rotated 2-face junction or random geometric "
    "topology); a sequence of 1-3 operations drawn from all public Grid methods and pad (scalar and vector, multi-axis, "
    "lazy data, transform, and ill-posed calls that raise half-way) is executed re-using the same objects. Monitors: a "
    "deep snapshot of every object of the world (values, dims, coords, attrs, names, dask graph names, dict keys / order / "
    "member identity, the Grid's axes settings, link table and metric registry, the dataset) is taken before and after "
    "every call, whether it returns or raises, and must be equal; every call's outcome is compared with the same "
    "operation run first on a freshly built world. Constructor arguments (coords, boundary, fill_value, periodic, "
    "default_shifts, metrics, face_connections) are snapshotted around Grid(...); one case in eleven builds the Grid from "
    "COMODO / SGRID metadata (c_grid_axis_shift spelt as float, text, numpy scalar or one-element array) and snapshots the "
    "dataset around Grid(ds), a diff, and a second Grid(ds). Class = (world, operation, position in "
    "the history, previous operations); non-trivial iff the operation is not the first of its history or takes a dictionary."
)
REQUIRED_REACH = ["xgcm.padding._pad_face_connections", "xgcm.grid.Grid._1d_grid_ufunc_dispatch", "xgcm.transform.transform",
                  "xgcm.grid.Grid._apply_vector_function", "xgcm.grid.Grid.interp_like"]

SIMPLE_OPS = ["diff", "interp", "min", "max", "cumsum", "cumint", "derivative", "integrate", "average", "get_metric", "interp_like",
              "ufunc", "gu_call", "gu_override", "pad", "vec_diff", "vec_interp", "diff_multi", "mw_diff", "transform_lin", "transform_log", "transform_cons", "transform_anon",
              "lazy_diff", "bad_axis", "bad_to", "bad_boundary", "bad_fill", "diff_to_dict", "interp_to_none", "max_to_none_u",
              "bad_set_metrics_list", "bad_set_metrics_new", "bad_set_metrics_occupied",
              "get_metric_product_c", "get_metric_product_o", "integrate_product_o"]
FACE_OPS = ["diff", "interp", "max", "vec_diff", "vec_interp", "vec_multi", "diff_2d_vector", "interp_2d_vector", "pad_scalar",
            "pad_vector", "lazy_vec", "bad_axis", "vec_no_other", "cumsum", "bad_2d_vector_boundary", "bad_2d_vector_fill", "bad_vec_boundary"]


def gen_case(rng, i, tier):
    if i % 11 == 5:
        # a Grid built from the dataset's own metadata (COMODO / SGRID), the attributes spelt as files deliver them
        from . import c14

        return {"world": "parsed", "d": c14.gen_case(rng, i, tier), "seed": rng.getrandbits(31), "seq": ["Grid", "diff", "Grid"]}
    if i % 3 == 2:
        # the corpora of C01 / C09 as workload: every shift (padded and unpadded paths), every spelling, 1-3 axes
        from . import c01, c09

        src = "c01" if rng.random() < 0.6 else "c09"
        d = (c01 if src == "c01" else c09).gen_case(rng, i, tier)
        if src == "c09":
            d["call"].pop("metric_weighted", None)
        return {"world": "corpus", "src": src, "d": d, "seq": ["call", "call"], "lazy": rng.random() < 0.15}
    world = "faces" if i % 2 else "simple"
    ops = SIMPLE_OPS if world == "simple" else FACE_OPS
    n = rng.choice([1, 2, 2, 3, 3])
    seq = [rng.choice(ops) for _ in range(n)]
    if rng.random() < 0.3:
        seq[-1] = seq[0]  # a repeated call with the same objects
    d = {"world": world, "seq": seq, "seed": rng.getrandbits(31), "rule": rng.choice(gen.RULES)}
    if world == "faces":
        if rng.random() < 0.5:
            d["topo"] = "junction"
        else:
            Kx, Ky = rng.choice([(2, 1), (2, 2), (1, 2)])
            T, t = topo.random_topo(rng, Kx, Ky, 3, rng.random() < 0.5)
            d["topo"] = {"Kx": Kx, "Ky": Ky, "periodic": T.per, "orients": topo.orient_ids(T)}
    return d


# ---------------------------------------------------------------------------------------------------
def build_world(desc):
    """-> dict of named objects; everything a call needs is taken from here."""
    import xarray as xr
    from xgcm import Grid

    W = {}
    r = np.random.default_rng(desc["seed"])
    if desc["world"] == "simple":
        N, M = 4, 3
        ds = xr.Dataset(coords={
            "xc": ("xc", np.arange(N) + 0.5, {"units": "m"}), "xg": ("xg", np.arange(N) * 1.0), "xo": ("xo", np.arange(N + 1) * 1.0),
            "yc": ("yc", np.arange(M) + 0.5), "yg": ("yg", np.arange(M) * 1.0), "zc": ("zc", np.arange(5) + 0.5), "zo": ("zo", np.arange(6) * 1.0),
            "time": ("time", [0.0, 1.0])})
        for d in ("xc", "xg", "xo", "yc", "yg", "zc", "zo"):
            ds["d_" + d] = ((d,), r.integers(1, 9, size=ds.sizes[d]).astype(float))
        ds["area"] = (("yc", "xc"), r.integers(1, 9, size=(M, N)).astype(float))
        ds["d_yc_other"] = (("yc",), r.integers(10, 19, size=M).astype(float))
        W["coords"] = {"X": {"center": "xc", "left": "xg", "outer": "xo"}, "Y": {"center": "yc", "left": "yg"}, "Z": {"center": "zc", "outer": "zo"}}
        W["ctor_boundary"] = [{"X": desc["rule"], "Z": "fill"}, {"X": desc["rule"], "Y": None, "Z": "fill"},
                              {"X": None, "Y": None, "Z": None}][desc["seed"] % 3]
        W["ctor_fill"] = {"X": 2.0}
        W["ctor_periodic"] = {"X": False, "Y": True, "Z": False}
        W["ctor_shifts"] = {"X": {"center": "outer"}}
        W["ctor_metrics"] = {("X",): ["d_xc", "d_xg", "d_xo"], ("Y",): ["d_yc", "d_yg"], ("Z",): ["d_zc"], ("X", "Y"): ["area"]}
        W["ds"] = ds
        W["da"] = xr.DataArray(gen.quarter_data(desc["seed"], (2, M, N)), dims=["time", "yc", "xc"], name="tracer", attrs={"long_name": "t"},
                               coords={"xc": ds.xc, "time": ds.time})
        W["dz"] = xr.DataArray(gen.quarter_data(desc["seed"] + 1, (2, 5)), dims=["time", "zc"], name="tz")
        # arrays on X and Z, for which no joint metric is registered: the metric is a product of one-axis metrics
        W["xz_c"] = xr.DataArray(gen.quarter_data(desc["seed"] + 4, (5, N)), dims=["zc", "xc"], name="xz")
        W["xz_o"] = xr.DataArray(gen.quarter_data(desc["seed"] + 5, (6, N)), dims=["zo", "xg"], name="xzo")
        # axes are named in a list, in the Grid's own order or not (the caller's list is the caller's: not sorted in place)
        W["axes_xz"] = ["X", "Z"] if desc["seed"] % 2 else ["Z", "X"]
        W["u"] = xr.DataArray(gen.quarter_data(desc["seed"] + 2, (2, M, N)), dims=["time", "yc", "xg"], name="u", attrs={"long_name": "zonal velocity", "units": "m s-1"})
        W["v"] = xr.DataArray(gen.quarter_data(desc["seed"] + 3, (2, M, N)), dims=["time", "yg", "xc"], name="v", attrs={"long_name": "meridional velocity"})
        W["VD"] = {"X": W["u"]}
        W["OC"] = {"Y": W["v"]}
        W["B"] = {"X": "extend", "Y": "fill"}
        W["Bp"] = {"X": "fill"}
        W["F"] = {"X": -1.0, "Y": 5.0}
        W["T"] = {"X": "left", "Y": "left"}
        W["MW"] = {"X": ("X",), "Y": ["Y"]} if desc["seed"] % 3 else {"X": ["Y", "X"], "Y": ["Y"]}
        W["Tn"] = {"X": None, "Y": "left"}  # None: not specified for X, the default shift applies
        W["Bn"] = {"X": None, "Y": "extend"}
        W["BW"] = {"X": (1, 0)}
        W["PW"] = {"X": (2, 1), "Y": (0, 1)}
        W["axes_list"] = ["X", "Y"] if (desc["seed"] // 2) % 2 else ["Y", "X"]
        W["levels"] = np.array([0.75, 2.5, 4.0])
        W["bins"] = xr.DataArray(np.array([0.0, 2.0, 5.0, 9.0]), dims=["dens_bin"])
        W["td_named"] = xr.DataArray(np.stack([np.arange(5.0) + 0.5, np.arange(5.0) * 2 + 1]), dims=["time", "zc"], name="dens")
        W["td_anon"] = xr.DataArray(np.stack([np.arange(5.0) + 0.5, np.arange(5.0) * 2 + 1]), dims=["time", "zc"])
        W["td_outer"] = xr.DataArray(np.stack([np.arange(6.0), np.arange(6.0) * 2]), dims=["time", "zo"], name="dens")
        W["lazy"] = W["da"].chunk({"time": 1, "xc": 2})
        from xgcm import as_grid_ufunc

        W["GU_BW"] = {"P": (1, 0)}
        W["GU_B"] = {"X": "fill", "Y": "extend"}
        W["GU_F"] = {"X": 4.0}
        W["gu"] = as_grid_ufunc(signature="(P:center)->(P:left)", boundary_width=W["GU_BW"], boundary=W["GU_B"], fill_value=W["GU_F"])(
            lambda a: a[..., 1:] - a[..., :-1])
        return W
    if desc["topo"] == "junction":
        N, nf = 3, 2
        t = {0: {"X": (None, (1, "Y", False))}, 1: {"Y": ((0, "X", False), None)}}
    else:
        tp = desc["topo"]
        N = 3
        T = topo.Topo(tp["Kx"], tp["Ky"], N, [topo.D4[k] for k in tp["orients"]], tp["periodic"])
        t, nf = T.table(), T.nf
    ds = xr.Dataset(coords={"x": ("x", np.arange(N) + 0.5), "xl": ("xl", np.arange(N) * 1.0), "y": ("y", np.arange(N) + 0.5),
                            "yl": ("yl", np.arange(N) * 1.0), "face": ("face", np.arange(nf)), "time": ("time", [0.0, 1.0])})
    W["coords"] = {"X": {"center": "x", "left": "xl"}, "Y": {"center": "y", "left": "yl"}}
    W["fc"] = {"face": t}
    W["ctor_boundary"] = {"X": desc["rule"], "Y": "fill"}
    W["ctor_fill"] = {"X": 2.0, "Y": -3.0}
    W["ds"] = ds
    # every array carries attributes of its own (as arrays read from files do): they are part of what a call must leave alone
    W["da"] = xr.DataArray(gen.unique_data((2, nf, N, N), 1), dims=["time", "face", "y", "x"], name="tracer", attrs={"long_name": "tracer", "units": "K"})
    W["u"] = xr.DataArray(gen.unique_data((2, nf, N, N), 1), dims=["time", "face", "y", "xl"], name="u", attrs={"long_name": "zonal velocity", "units": "m s-1"})
    W["v"] = xr.DataArray(gen.unique_data((2, nf, N, N), 1001), dims=["time", "face", "yl", "x"], name="v",
                          attrs={"long_name": "meridional velocity", "standard_name": "northward_sea_water_velocity"})
    W["VD"] = {"X": W["u"]}
    W["VDy"] = {"Y": W["v"]}
    W["OC"] = {"Y": W["v"]}
    W["OCx"] = {"X": W["u"]}
    W["VEC"] = {"X": W["u"], "Y": W["v"]}
    W["B"] = {"X": "extend", "Y": "fill"}
    W["F"] = {"X": -1.0, "Y": 5.0}
    W["PW"] = {"X": (1, 2), "Y": (1, 1)}
    W["lazy_u"] = {"X": W["u"].chunk({"time": 1})}
    W["lazy_v"] = {"Y": W["v"].chunk({"time": 1})}
    return W


def make_grid(W, desc):
    from xgcm import Grid

    if desc["world"] == "simple":
        return Grid(W["ds"], coords=W["coords"], periodic=W["ctor_periodic"], boundary=W["ctor_boundary"], fill_value=W["ctor_fill"],
                    default_shifts=W["ctor_shifts"], metrics=W["ctor_metrics"], autoparse_metadata=False)
    return Grid(W["ds"], coords=W["coords"], periodic=False, boundary=W["ctor_boundary"], fill_value=W["ctor_fill"],
                face_connections=W["fc"], autoparse_metadata=False)


def do(op, W, g, desc):
    from xgcm.padding import pad

    if desc["world"] == "simple":
        if op in ("diff", "interp", "min", "max"):
            return getattr(g, op)(W["da"], W["axes_list"], to=W["T"], boundary=W["B"], fill_value=W["F"])
        if op == "interp_to_none":
            return g.interp(W["da"], W["axes_list"], to=W["Tn"], boundary=W["B"], fill_value=W["F"])
        if op == "max_to_none_u":
            return g.max(W["u"], W["axes_list"], to=W["Tn"], boundary=W["Bn"])
        if op == "diff_to_dict":
            return g.diff(W["da"], "X", to=W["T"], boundary=W["Bp"], keep_coords=True)
        if op == "cumsum":
            return g.cumsum(W["da"], W["axes_list"], to=W["T"], boundary=W["B"], fill_value=W["F"])
        if op == "cumint":
            return g.cumint(W["da"], "X", to="outer", boundary=W["B"])
        if op == "derivative":
            return g.derivative(W["da"], "X", to="left", boundary=W["B"], fill_value=W["F"])
        if op == "integrate":
            return g.integrate(W["da"], W["axes_list"])
        if op == "average":
            return g.average(W["da"], W["axes_list"])
        if op == "get_metric":
            return g.get_metric(W["u"], W["axes_list"])
        if op == "get_metric_product_c":
            return g.get_metric(W["xz_c"], W["axes_xz"])
        if op == "get_metric_product_o":
            return g.get_metric(W["xz_o"], W["axes_xz"])
        if op == "integrate_product_o":
            return g.integrate(W["xz_o"], W["axes_xz"])
        if op == "interp_like":
            return g.interp_like(W["u"], W["da"], boundary=W["B"], fill_value=W["F"])
        if op == "ufunc":
            return g.apply_as_grid_ufunc(lambda a: a[..., 1:] - a[..., :-1], W["da"], axis=[("X",)], signature="(P:center)->(P:left)",
                                         boundary_width=W["BW"], boundary=W["B"], fill_value=W["F"])
        if op == "pad":
            return pad(W["da"], g, W["PW"], boundary=W["B"], fill_value=W["F"])
        if op == "gu_call":
            return W["gu"](g, W["da"], axis=[("X",)])
        if op == "gu_override":
            return W["gu"](g, W["da"], axis=[("X",)], boundary=W["B"], fill_value=W["F"])
        if op == "vec_diff":
            return g.diff(W["VD"], "X", other_component=W["OC"], boundary=W["B"])
        if op == "vec_interp":
            return g.interp(W["VD"], "X", to="center", other_component=W["OC"], fill_value=W["F"])
        if op == "diff_multi":
            return g.diff(W["da"], ("X", "Y"), boundary="extend")
        if op == "mw_diff":
            return g.diff(W["da"], W["axes_list"], to=W["T"], boundary=W["B"], metric_weighted=W["MW"])
        if op == "transform_lin":
            return g.transform(W["dz"], "Z", W["levels"], target_data=W["td_named"])
        if op == "transform_log":
            return g.transform(W["dz"], "Z", W["levels"], target_data=W["td_named"], method="log")
        if op == "transform_cons":
            return g.transform(W["dz"], "Z", W["bins"], target_data=W["td_outer"], method="conservative")
        if op == "transform_anon":
            return g.transform(W["dz"], "Z", W["levels"], target_data=W["td_anon"], mask_edges=False)
        if op == "lazy_diff":
            return g.diff(W["lazy"], W["axes_list"], to=W["T"], boundary=W["B"], fill_value=W["F"]).compute(scheduler="synchronous")
        # registrations that are refused half-way must leave the registry as it was
        if op == "bad_set_metrics_list":
            return g.set_metrics("Y", ["d_yc_other", "no_such_variable"], overwrite=True)
        if op == "bad_set_metrics_new":
            return g.set_metrics(("Y", "Z"), "no_such_variable")
        if op == "bad_set_metrics_occupied":
            return g.set_metrics(("Y",), ["d_yc_other"])  # slot occupied, no overwrite: refused
        if op == "bad_axis":
            return g.diff(W["da"], ["X", "Q"], to=W["T"], boundary=W["B"])
        if op == "bad_to":
            return g.interp(W["da"], W["axes_list"], to={"X": "left", "Y": "center"}, boundary=W["B"], fill_value=W["F"])
        if op == "bad_boundary":
            return g.diff(W["da"], W["axes_list"], to=W["T"], boundary={"X": "extend", "Y": "bogus"}, fill_value=W["F"])
        if op == "bad_fill":
            return g.diff(W["da"], W["axes_list"], to=W["T"], boundary="fill", fill_value={"X": 1.0, "Y": "a"})
        raise KeyError(op)
    if op in ("diff", "interp", "max"):
        return getattr(g, op)(W["da"], "X", boundary=W["B"], fill_value=W["F"])
    if op == "cumsum":
        return g.cumsum(W["da"], "Y", boundary="fill")
    if op == "vec_diff":
        return g.diff(W["VD"], "X", other_component=W["OC"])
    if op == "vec_interp":
        return g.interp(W["VDy"], "Y", other_component=W["OCx"], boundary=W["B"])
    if op == "vec_multi":
        return g.interp(W["VD"], ["X", "Y"], other_component=W["OC"], boundary="fill")
    if op == "diff_2d_vector":
        return g.diff_2d_vector(W["VEC"], boundary="fill")
    if op == "interp_2d_vector":
        return g.interp_2d_vector(W["VEC"], boundary=W["B"])
    # calls that raise inside the per-component work (after the argument checks): the dictionaries stay as they were
    if op == "bad_2d_vector_boundary":
        return g.diff_2d_vector(W["VEC"], boundary="bogus")
    if op == "bad_2d_vector_fill":
        return g.interp_2d_vector(W["VEC"], boundary="fill", fill_value={"X": 1.0, "Y": "a"})
    if op == "bad_vec_boundary":
        return g.interp(W["VD"], "X", other_component=W["OC"], boundary={"X": "bogus"})
    if op == "pad_scalar":
        return pad(W["da"], g, W["PW"], boundary=W["B"], fill_value=W["F"])
    if op == "pad_vector":
        return pad(W["VD"], g, W["PW"], boundary=W["B"], fill_value=W["F"], other_component=W["OC"])
    if op == "lazy_vec":
        return g.diff(W["lazy_u"], "X", other_component=W["lazy_v"]).compute(scheduler="synchronous")
    if op == "bad_axis":
        return g.diff(W["da"], "Q")
    if op == "vec_no_other":
        return g.diff(W["VD"], "X")
    raise KeyError(op)


def outcome(f):
    import xarray as xr

    def dg(r):
        if isinstance(r, xr.DataArray):
            return ("DA", tuple(r.dims), r.name, tuple(sorted(map(str, r.coords))), snapshot._h(r.values), snapshot._attrs(r.attrs))
        if isinstance(r, dict):
            return tuple((k, dg(v)) for k, v in r.items())
        if isinstance(r, (tuple, list)):
            return tuple(dg(v) for v in r)
        return repr(r)

    try:
        with warnings.catch_warnings():
            warnings.simplefilter("ignore")
            return ("return", dg(f()))
    except Exception as e:
        return ("raise", type(e).__name__, str(e)[:120])


def run_corpus(ctx, desc):
    """A call drawn from another check's corpus, made twice with the very same objects, then on fresh ones."""
    import copy

    from . import c01, c09

    d = desc["d"]

    def build():
        if desc["src"] == "c01":
            ds, g = c01.make_grid(d)
            op = d["call"]["op"]
        else:
            ds, g = c09.build(d)
            op = "cumsum"
        da = c01.make_da(d, ds)
        if desc["lazy"]:
            da = da.chunk({x: 1 for x in da.dims[:1]})
        kw = copy.deepcopy({k: d["call"][k] for k in ("to", "boundary", "fill_value") if k in d["call"]})
        axis = copy.deepcopy(d["call"]["axis"])
        return {"ds": ds, "da": da, "kw": kw, "axis": axis}, g, op

    try:
        W, g, op = build()
    except Exception:
        ctx.count("corpus_base_invalid")
        return
    names = sorted(W)

    def call(W_, g_):
        r = getattr(g_, op)(W_["da"], W_["axis"], **W_["kw"])
        return r.compute(scheduler="synchronous") if desc["lazy"] else r

    opax, to_eff = c01.effective_to(d)
    shifts = [(d["pos"][a], to_eff[a]) for a in opax]
    first = None
    for k in range(2):
        s0 = {n: snapshot.snap(W[n]) for n in names}
        g0 = snapshot.snap_grid(g)
        res = outcome(lambda: call(W, g))
        s1 = {n: snapshot.snap(W[n]) for n in names}
        ctx.judged(("corpus-unmodified", desc["src"], op, shifts, k, desc["lazy"]), True)
        changed = [n for n in names if s0[n] != s1[n]]
        if changed:
            n = changed[0]
            ctx.violation("arguments-unmodified", f"{op} {shifts} (call #{k + 1}, {res[0]}) modified its argument {n}: {snapshot.diff(s0[n], s1[n], n)}")
            return
        if snapshot.snap_grid(g) != g0:
            ctx.violation("grid-unmodified", f"{op} {shifts} changed the Grid's own settings")
            return
        if first is None:
            first = res
        elif (res if res[0] == "return" else res[:2]) != (first if first[0] == "return" else first[:2]):
            ctx.violation("history-independent", f"{op} {shifts}: repeating the call with the same objects gives another result")
            return
    W2, g2, _ = build()
    ref = outcome(lambda: call(W2, g2))
    ctx.judged(("corpus-fresh", desc["src"], op, shifts), True)
    if (ref if ref[0] == "return" else ref[:2]) != (first if first[0] == "return" else first[:2]):
        ctx.violation("history-independent", f"{op} {shifts}: result on re-used objects differs from the result on fresh objects")


def run_parsed(ctx, desc):
    """Grid(ds) parsing the dataset's metadata must leave the dataset (values, attributes and their types) alone."""
    import random

    import xarray as xr
    from xgcm import Grid

    from ..models import conventions as conv

    d = desc["d"]
    rng = random.Random(d["aseed"])
    if d["conv"] == "comodo":
        ds = conv.comodo_dataset(d["spec"], rng)
        r2 = random.Random(desc["seed"])
        for name, v in ds.variables.items():
            if "c_grid_axis_shift" in v.attrs:
                val = v.attrs["c_grid_axis_shift"]
                # as read from files: text, single precision, a numpy scalar, a one-element array
                v.attrs["c_grid_axis_shift"] = r2.choice([val, val, str(val), np.float32(val), np.float64(val), np.array([val])])
    else:
        ds = conv.sgrid_dataset(d["spec"], d["kind"], rng, with_comodo=d["with_comodo"], entry_order_seed=d.get("entry_order"))
    s0 = snapshot.snap(ds)
    ctx.judged(("parsed-constructor", d["conv"], d.get("kind")), True)
    try:
        with warnings.catch_warnings():
            warnings.simplefilter("ignore")
            g = Grid(ds, periodic=False)
    except Exception as e:
        ctx.count("parsed_ctor_raised_" + type(e).__name__)
        g = None
    s1 = snapshot.snap(ds)
    if s1 != s0:
        ctx.violation("arguments-unmodified", f"Grid(ds) parsing {d['conv']} metadata modified the dataset: {snapshot.diff(s0, s1, 'ds')}")
        return
    if g is None:
        return
    ax0 = {a: dict(ax.coords) for a, ax in g.axes.items()}
    for a, ax in d["spec"].items():
        others = [p for p in ax["pos"] if p != "center"]
        if "center" not in ax["pos"] or not others or a not in g.axes:
            continue
        dims = [x["pos"]["center"] for x in d["spec"].values() if "center" in x["pos"]]
        da = xr.DataArray(gen.quarter_data(desc["seed"], [ds.sizes[k] for k in dims]), dims=dims, name="t")
        sd = snapshot.snap(da)
        res = outcome(lambda: g.diff(da, a, to=others[0], boundary="extend"))
        ctx.judged(("parsed-unmodified", d["conv"], res[0]), True)
        if snapshot.snap(ds) != s0 or snapshot.snap(da) != sd:
            ctx.violation("arguments-unmodified", f"diff on a Grid parsed from {d['conv']} metadata modified the dataset or its input")
            return
        break
    ctx.judged(("parsed-history-independent", d["conv"]), True)
    with warnings.catch_warnings():
        warnings.simplefilter("ignore")
        gb = Grid(ds, periodic=False)
    if {a: dict(ax.coords) for a, ax in gb.axes.items()} != ax0 or list(gb.axes) != list(g.axes):
        ctx.violation("history-independent", f"a second Grid(ds) on the same dataset parses other axes: {list(gb.axes)} vs {list(g.axes)}")


def run_case(ctx, desc):
    if desc["world"] == "corpus":
        return run_corpus(ctx, desc)
    if desc["world"] == "parsed":
        return run_parsed(ctx, desc)
    W = build_world(desc)
    names = sorted(W)
    before = {k: snapshot.snap(W[k]) for k in names}
    ctx.judged(("constructor", desc["world"]), True)
    try:
        with warnings.catch_warnings():
            warnings.simplefilter("ignore")
            g = make_grid(W, desc)
    except Exception as e:
        ctx.violation("constructor-accepts", f"Grid(...) raised {type(e).__name__}: {str(e)[:200]}")
        return
    after = {k: snapshot.snap(W[k]) for k in names}
    for k in names:
        if before[k] != after[k]:
            ctx.violation("arguments-unmodified", f"Grid(...) modified its argument {k}: {snapshot.diff(before[k], after[k], k)}")
            return
    if ctx.case_index % 50 == 0:
        ctx.sample(desc)
    prev = []
    for pos, op in enumerate(desc["seq"]):
        s0 = {k: snapshot.snap(W[k]) for k in names}
        g0 = snapshot.snap_grid(g)
        res = outcome(lambda: do(op, W, g, desc))
        s1 = {k: snapshot.snap(W[k]) for k in names}
        g1 = snapshot.snap_grid(g)
        takes_dict = op.startswith(("vec", "pad_vector", "diff_2d", "interp_2d", "lazy_vec", "mw", "diff", "interp", "min", "max", "cumsum"))
        ctx.judged(("unmodified", desc["world"], op, res[0], pos, tuple(prev[-1:])), pos > 0 or takes_dict)
        changed = [k for k in names if s0[k] != s1[k]]
        if changed:
            k = changed[0]
            ctx.violation("arguments-unmodified", f"{desc['world']} {op} ({res[0]}{' ' + res[1] if res[0] == 'raise' else ''}) modified {k}: "
                                                  f"{snapshot.diff(s0[k], s1[k], k)}; history {desc['seq'][:pos + 1]}")
            return
        if g0 != g1:
            ctx.violation("grid-unmodified", f"{desc['world']} {op} changed the Grid's own settings: {snapshot.diff(g0, g1, 'grid')}")
            return
        # history independence: the same operation first, on freshly built objects
        W2 = build_world(desc)
        with warnings.catch_warnings():
            warnings.simplefilter("ignore")
            g2 = make_grid(W2, desc)
        ref = outcome(lambda: do(op, W2, g2, desc))
        ctx.judged(("history-independent", desc["world"], op, pos, tuple(prev[-2:])), pos > 0)
        a = res if res[0] == "return" else res[:2]
        b = ref if ref[0] == "return" else ref[:2]
        if a != b:
            ctx.violation("history-independent", f"{desc['world']} {op} after {prev} -> {str(res)[:160]}; on fresh objects -> {str(ref)[:160]}")
            return
        prev.append(op)


# ---------------------------------------------------------------------------------------------------
# thorough tier: the repository's own tests as a workload under the snapshot monitor
def custom_driver(tier, seed, work):
    import glob
    import json
    import os
    import subprocess
    import sys

    from .. import core

    mod = sys.modules[__name__]
    results, extra = core.run_shards(mod, ID, tier, seed, work)
    if tier != "thorough" and os.environ.get("VERIF_PLUGIN") != "1":
        return results, extra
    env = core.child_env(True)
    env["VF_PLUGIN_OUT"] = os.path.join(work, "plug")
    env.pop("PYTHONWARNINGS", None)
    cmd = [core.PY, "-m", "pytest", "-q", "-p", "no:cacheprovider", "-p", "vf.pytest_plugin", "-n", os.environ.get("VERIF_JOBS", "14"),
           "--timeout=900", "-x" if False else "-q", "xgcm/test"]
    try:
        p = subprocess.run(cmd, cwd=core.REPO, env=env, capture_output=True, text=True, timeout=2400)
        tail = p.stdout.strip().splitlines()[-1] if p.stdout.strip() else p.stderr[-200:]
    except subprocess.TimeoutExpired:
        extra.append("repository-tests workload timed out")
        return results, extra
    ctx = core.Ctx(ID, tier, seed)
    files = glob.glob(os.path.join(work, "plug.*.json"))
    if not files:
        extra.append("repository-tests workload produced no monitor output: " + tail[:200])
        return results, extra
    total = {"calls": 0, "judged": 0}
    for f in files:
        st = json.load(open(f))
        total["calls"] += st["calls"]
        total["judged"] += st["judged"]
        for api, n in st["by_api"].items():
            ctx.judged(("repo-tests-workload", api), True, n=0)
            ctx.count("repo_tests_calls:" + api, n)
        for v in st["violations"]:
            ctx.case_index = None
            ctx.violation("arguments-unmodified", f"repository test {v['test']}: {v['api']} ({v['outcome']}) modified {v['arg']}: {v['diff']}",
                          desc={"workload": "repository tests", "test": v["test"], "api": v["api"]})
    ctx.evaluations += total["judged"]
    ctx.count("repo_tests_calls_monitored", total["judged"])
    ctx.sample({"workload": "repository test suite under the snapshot monitor", "pytest_summary": tail[:200], "calls_monitored": total["judged"]})
    r = ctx.result()
    r["reached"], r["reach_active"] = [], True
    results.append(r)
    return results, extra
