"""C03 - scalar operations are invariant to how the domain is cut into faces."""
import numpy as np

from .. import gen
from ..models import linktable, stencil, topo

ID = "C03"
NEEDS_SHIM = False
BUDGET = {"quick": 2000, "thorough": 120000}
MIN_EVALS = {"quick": 1500, "thorough": 30000}
RULE = (
    "seeded random decompositions: a periodic or open rectangular domain of Kx x Ky in {1x1,2x1,1x2,3x1,2x2,3x2,2x3} "
    "square faces of N in 2..5 cells, an independent D4 orientation per face drawn until every junction is expressible "
    "in the face_connections format (table derived from the geometry), face dimension at a random place among 0-2 extra "
    "dims; one of diff/interp/min/max of a cell-centred field along X or Y to left, right or outer (both edges of every face), optionally on a grid with an unlinked third axis Z (operation along Z; or along X/Y of a surface field after an operation along Z), fill/extend/periodic rule on "
    "unlinked edges given at grid or call level; unique-id or exact-safe data, a fifth of the cases dask-backed (one chunk, or chunked over face / extra dimensions). Oracle: every target point takes the two "
    "adjacent local cells; a cell outside the face is the geometric neighbour in the undivided global field when the edge "
    "is linked, else the boundary rule on the face's own array; all cells of all faces compared bit-exactly. Class = "
    "(arrangement, periodic, op, axis, to, link kinds crossed, open-edge rule, N>2); non-trivial iff some value crossed a link."
)
REQUIRED_REACH = ["xgcm.padding._pad_face_connections", "xgcm.grid.Grid._1d_grid_ufunc_dispatch"]
ARR = [(1, 1), (2, 1), (1, 2), (3, 1), (2, 2), (3, 2), (2, 3)]


def gen_case(rng, i, tier):
    Kx, Ky = rng.choice(ARR)
    per = rng.random() < 0.45 or (Kx, Ky) == (1, 1)
    N = rng.randint(2, gen.deep(rng, tier, 5, 7, 0.15))
    T, t = topo.random_topo(rng, Kx, Ky, N, per, pool=(topo.D4 if rng.random() < 0.8 else [topo.D4[0]]))
    if T is None:
        return None
    extra = {e: rng.randint(1, 2) for e in rng.sample(gen.EXTRA_DIM_POOL, rng.choice([0, 1, 1, 2]))}
    order = ["face", "y", "x"] + list(extra)
    rng.shuffle(order)
    return {"Kx": Kx, "Ky": Ky, "N": N, "periodic": per, "orients": topo.orient_ids(T), "extra": extra, "order": order,
            "op": rng.choice(["diff", "interp", "min", "max"]), "axis": rng.choice("XY"), "to": rng.choice(["left", "right", "outer"]),
            "rule": {a: rng.choice(gen.RULES) for a in "XY"}, "fill": float(rng.choice([-9, -2.5, 0, 4])),
            "rule_level": rng.choice(["grid", "call"]), "data": rng.choice(["unique", "quarter"]), "dseed": rng.getrandbits(31),
            "to_default": rng.random() < 0.15,
            # a third axis that takes no part in the face connections (say, the vertical): operating along it must be
            # the plain stencil with that axis' own rule, and it must not disturb operations along X or Y
            "zaxis": ({"n": rng.randint(2, 4), "op_along_z": rng.random() < 0.4, "rule": rng.choice(gen.RULES)} if rng.random() < 0.3 else None)}


def selftest(ctx):
    """All-identity orientations: the geometric oracle must coincide with cutting the numpy result of the undivided array."""
    import random

    rng = random.Random(3)
    for _ in range(10):
        Kx, Ky, N = rng.choice(ARR), None, rng.randint(2, 4)
        Kx, Ky = Kx
        T = topo.Topo(Kx, Ky, N, [topo.D4[0]] * (Kx * Ky), True)
        G = gen.quarter_data(rng.getrandbits(20), (Ky * N, Kx * N))
        F = T.cut(G)
        whole = G - np.roll(G, 1, axis=1)  # diff to left along X on the periodic undivided array
        for f in range(T.nf):
            for j in range(N):
                for i in range(N):
                    c0 = T.neighbour(f, i - 1, j)
                    assert F[f, j, i] - G[c0[1], c0[0]] == T.cut(whole)[f, j, i]


def run_case(ctx, desc):
    import xarray as xr
    from xgcm import Grid

    Kx, Ky, N = desc["Kx"], desc["Ky"], desc["N"]
    T = topo.Topo(Kx, Ky, N, [topo.D4[k] for k in desc["orients"]], desc["periodic"])
    t = T.table()
    assert t is not None
    ds = xr.Dataset(coords={
        "x": ("x", np.arange(N) + 0.5), "xl": ("xl", np.arange(N) * 1.0), "xr": ("xr", np.arange(N) + 1.0), "xo": ("xo", np.arange(N + 1) * 1.0),
        "y": ("y", np.arange(N) + 0.5), "yl": ("yl", np.arange(N) * 1.0), "yr": ("yr", np.arange(N) + 1.0), "yo": ("yo", np.arange(N + 1) * 1.0),
        "face": ("face", np.arange(T.nf)), **{e: (e, np.arange(n) * 1.0) for e, n in desc["extra"].items()}})
    cm = {"X": {"center": "x", "left": "xl", "right": "xr", "outer": "xo"}, "Y": {"center": "y", "left": "yl", "right": "yr", "outer": "yo"}}
    z = desc.get("zaxis")
    if z:
        return run_with_z(ctx, desc, T, t, ds, cm, z)
    rule, fv = desc["rule"], desc["fill"]
    gkw, ckw = {}, {}
    if desc["rule_level"] == "grid":
        gkw = {"boundary": dict(rule), "fill_value": fv}
    else:
        ckw = {"boundary": dict(rule), "fill_value": fv}
    a, to, op = desc["axis"], desc["to"], desc["op"]
    if desc["to_default"]:
        to = "left"  # documented default from center when left exists
    else:
        ckw["to"] = to
    try:
        # the links are listed in a seeded random order of faces and axes (half of the cases): listing order is not topology
        t_listed = linktable.listed_in_order(t, desc["dseed"]) if desc["dseed"] % 2 else t
        g = Grid(ds, coords=cm, face_connections={"face": linktable.spelled(t_listed, desc["dseed"] // 2)}, periodic=False, autoparse_metadata=False, **gkw)
    except Exception as e:
        ctx.judged(("ctor", Kx, Ky), True)
        ctx.violation("geometric-table-accepted", f"Grid raised {type(e).__name__}: {str(e)[:200]} for table {t}")
        return
    W, H = Kx * N, Ky * N
    if desc["data"] == "unique":
        G = gen.unique_data((H, W), start=1)
    else:
        G = gen.quarter_data(desc["dseed"], (H, W))
    nan_class = desc["data"] != "unique" and desc["dseed"] % 7 == 3
    if nan_class:
        # missing values (land points), a good share of them in cells that touch a junction: a missing value crosses a link
        # like any other value (diff and interp of a missing neighbour are missing, on the faces as on the undivided domain)
        import random

        nr = random.Random(desc["dseed"] + 17)
        G = G.copy()
        for jj in range(H):
            for ii in range(W):
                edge = ii % N in (0, N - 1) or jj % N in (0, N - 1)
                if nr.random() < (0.3 if edge else 0.1):
                    G[jj, ii] = np.nan
    ex = list(desc["extra"])
    lead = [desc["extra"][e] for e in ex]
    nlead = int(np.prod(lead)) if lead else 1
    # a different (shifted) global field on every index of the extra dims: extra dims must stay independent
    Gs = [G + 4096.0 * k for k in range(nlead)]
    Fs = [T.cut(Gk) for Gk in Gs]
    full = np.stack(Fs).reshape(tuple(lead) + Fs[0].shape)
    da = xr.DataArray(full, dims=ex + ["face", "y", "x"]).transpose(*desc["order"])
    lazy = desc["dseed"] % 5 == 1
    if lazy:
        # the same field held as a dask array (one chunk, or chunked over the face and extra dimensions): the values the
        # operators return do not depend on where the data lives
        import random

        lr = random.Random(desc["dseed"])
        da = da.chunk({d: (gen.random_composition(lr, da.sizes[d]) if (d not in ("x", "y") and lr.random() < 0.6) else (da.sizes[d],)) for d in da.dims})
    crossed = set()
    fop = stencil.OPS[op]
    exps = []
    for Gk, F in zip(Gs, Fs):

        def cell(f, i, j):
            if 0 <= i < N and 0 <= j < N:
                return F[f, j, i]
            idx = i if a == "X" else j
            side = 0 if idx < 0 else 1
            lk = t[f][a][side]
            if lk is not None:
                crossed.add(("right" if side else "left", "same" if lk[1] == a else "swapped", "reversed" if lk[2] else "normal"))
                c = T.neighbour(f, i, j)
                return Gk[c[1], c[0]]
            crossed.add(("open", rule[a]))
            if rule[a] == "fill":
                return fv
            kk = min(max(idx, 0), N - 1) if rule[a] == "extend" else idx % N
            return F[f, j, kk] if a == "X" else F[f, kk, i]

        # to 'outer' the result has N+1 points along the axis: both edges of the face need the neighbour (or the rule)
        nA = N + 1 if to == "outer" else N
        exp = np.empty((T.nf, nA if a == "Y" else N, nA if a == "X" else N))
        for f in range(T.nf):
            for j in range(exp.shape[1]):
                for i in range(exp.shape[2]):
                    k = i if a == "X" else j
                    lo, hi = (k, k + 1) if to == "right" else (k - 1, k)
                    l = cell(f, lo, j) if a == "X" else cell(f, i, lo)
                    r = cell(f, hi, j) if a == "X" else cell(f, i, hi)
                    exp[f, j, i] = fop(l, r)
        exps.append(exp)
    links = sorted(k for k in crossed if k[0] != "open")
    ckey = ((Kx, Ky), desc["periodic"], op, a, to, links, sorted(k for k in crossed if k[0] == "open"), N > 2) + (("lazy",) if lazy else ()) + (("nan",) if nan_class else ())
    ctx.judged(ckey, bool(links))
    for k in links:
        ctx.note("link_kinds_seen", k)
    ctx.note("orientations_seen", tuple(sorted(set(desc["orients"]))))
    try:
        r = getattr(g, op)(da, a, **ckw)
    except Exception as e:
        ctx.violation("well-posed-call-returns", f"{op} along {a} to {to} raised {type(e).__name__}: {str(e)[:250]}")
        return
    if ctx.evaluations % 40 == 1:
        ctx.sample({"case": desc, "table": {str(f): {x: [None if l is None else list(l) for l in lr] for x, lr in d.items()} for f, d in t.items()}})
    nd = cm[a][to]
    want_dims = [nd if d == ("x" if a == "X" else "y") else d for d in da.dims]
    if set(r.dims) != set(want_dims):
        ctx.violation("result-dims", f"dims {r.dims}, expected (any order) {want_dims}")
        return
    canon = ex + ["face"] + (["y", nd] if a == "X" else [nd, "x"])
    R = r.transpose(*canon).values
    R2 = R.reshape((-1,) + exps[0].shape)
    for k in range(R2.shape[0]):
        exp = exps[k]
        got_k = R2[k]
        if nan_class and op in ("min", "max"):
            # what the smaller / larger of a value and a missing value is, is not stated: those points are not compared
            got_k = np.where(np.isnan(exp), np.nan, got_k)
        if not np.array_equal(got_k, exp, equal_nan=True):
            w = tuple(np.argwhere(~((got_k == exp) | (np.isnan(got_k) & np.isnan(exp))))[0])
            ctx.violation("invariant-to-face-cut", f"{op} {a}->{to} on {Kx}x{Ky} faces N={N} periodic={desc['periodic']} orientations {desc['orients']}: "
                                                  f"face {w[0]} cell (j={w[1]}, i={w[2]}) = {R2[k][w]}, undivided domain gives {exp[w]}; rule {rule[a]}")
            return


def run_with_z(ctx, desc, T, t, ds, cm, z):
    """Variant with an unconnected third axis Z (center/left): data (z, face, y, x)."""
    import xarray as xr
    from xgcm import Grid

    N, nz = desc["N"], z["n"]
    ds = ds.assign_coords(z=("z", np.arange(nz) + 0.5), zl=("zl", np.arange(nz) * 1.0))
    cm = dict(cm, Z={"center": "z", "left": "zl"})
    rule = dict(desc["rule"], Z=z["rule"])
    fv = desc["fill"]
    t_listed = linktable.listed_in_order(t, desc["dseed"]) if desc["dseed"] % 2 else t
    try:
        g = Grid(ds, coords=cm, face_connections={"face": linktable.spelled(t_listed, desc["dseed"] // 2)}, periodic=False, boundary=rule, fill_value=fv, autoparse_metadata=False)
    except Exception as e:
        ctx.judged(("ctor-z",), True)
        ctx.violation("geometric-table-accepted", f"Grid with an extra unconnected axis raised {type(e).__name__}: {str(e)[:200]}")
        return
    W, H = desc["Kx"] * N, desc["Ky"] * N
    Gs = [gen.quarter_data(desc["dseed"] + k, (H, W)) for k in range(nz)]
    Fs = np.stack([T.cut(G) for G in Gs])  # [z, face, j, i]
    dims = ["z", "face", "y", "x"]
    order = list(np.random.default_rng(desc["dseed"]).permutation(4))
    da = xr.DataArray(Fs, dims=dims).transpose(*[dims[k] for k in order])
    op, fop = desc["op"], stencil.OPS[desc["op"]]
    if z["op_along_z"]:
        ckey = ("z-axis", "along-z", op, z["rule"], (desc["Kx"], desc["Ky"]))
        ctx.judged(ckey, True)
        try:
            r = getattr(g, op)(da, "Z", to="left")
        except Exception as e:
            ctx.violation("well-posed-call-returns", f"{op} along the unconnected axis Z raised {type(e).__name__}: {str(e)[:200]}")
            return
        exp = stencil.op_last_axis(np.moveaxis(Fs, 0, -1), op, "center", "left", nz, z["rule"], fv)
        got = r.transpose("face", "y", "x", "zl").values
        if not np.array_equal(got, exp):
            ctx.violation("unconnected-axis-plain-stencil", f"{op} along Z (rule {z['rule']}) on a face-connected grid differs from the plain stencil")
        return
    a, to = desc["axis"], desc["to"]
    # in a third of these cases the grid has already been used along Z, and the horizontal operation is then asked of a
    # field without a vertical dimension (a surface field): an earlier call changes nothing about a later one
    surface_after_z = desc["dseed"] % 3 == 0
    ckey = ("z-axis", "along-" + a, op, to, (desc["Kx"], desc["Ky"]), desc["periodic"], surface_after_z)
    ctx.judged(ckey, True)
    try:
        if surface_after_z:
            getattr(g, op)(da, "Z", to="left")
            r = getattr(g, op)(da.isel(z=0, drop=True), a, to=to).expand_dims("z")
        else:
            r = getattr(g, op)(da, a, to=to)
    except Exception as e:
        ctx.violation("well-posed-call-returns", f"{op} along {a} with an extra axis Z on the grid{' (surface field, after an operation along Z)' if surface_after_z else ''} raised {type(e).__name__}: {str(e)[:200]}")
        return
    nd = cm[a][to]
    R = r.transpose("z", "face", *(["y", nd] if a == "X" else [nd, "x"])).values
    for k in range(1 if surface_after_z else nz):
        G, F = Gs[k], Fs[k]

        def cell(f, i, j):
            if 0 <= i < N and 0 <= j < N:
                return F[f, j, i]
            idx = i if a == "X" else j
            side = 0 if idx < 0 else 1
            if t[f][a][side] is not None:
                c = T.neighbour(f, i, j)
                return G[c[1], c[0]]
            if rule[a] == "fill":
                return fv
            kk = min(max(idx, 0), N - 1) if rule[a] == "extend" else idx % N
            return F[f, j, kk] if a == "X" else F[f, kk, i]

        nA = N + 1 if to == "outer" else N
        for f in range(T.nf):
            for j in range(nA if a == "Y" else N):
                for i in range(nA if a == "X" else N):
                    q = i if a == "X" else j
                    lo, hi = (q, q + 1) if to == "right" else (q - 1, q)
                    l = cell(f, lo, j) if a == "X" else cell(f, i, lo)
                    rr = cell(f, hi, j) if a == "X" else cell(f, i, hi)
                    if R[k, f, j, i] != fop(l, rr):
                        ctx.violation("invariant-to-face-cut", f"{op} {a}->{to} with an unconnected axis Z present: level {k} face {f} cell (j={j}, i={i}) = {R[k, f, j, i]}, undivided domain gives {fop(l, rr)}")
                        return
