"""C14 - metadata autoparsing recovers exactly the topology the conventions prescribe."""
import random
import string

import numpy as np

from .. import gen
from ..models import conventions as conv

ID = "C14"
NEEDS_SHIM = False
BUDGET = {"quick": 2400, "thorough": 300000}
MIN_EVALS = {"quick": 2500, "thorough": 60000}
RULE = (
    "seeded random specs encoded into attributes by independent encoders and parsed back by Grid(ds) without coords: "
    "COMODO (1-3 axes of arbitrary names, every position subset containing center, 1-6 cells, both shift signs on "
    "inner/outer, c_grid_axis_shift absent or 0 on center, shuffled dims) and SGRID (1-D, 2-D, 2-D+vertical_dimensions, "
    "3-D; four padding words; with/without space after ':'; entries of face/volume_dimensions in the order of node_dimensions or shuffled; Conventions/conventions; ordinary and hostile dimension "
    "names incl. substrings of each other and of 'padding'; optionally contradicting COMODO attributes). Verdicts: axes "
    "and position->dimension mapping equal the spec; diff/interp on the parsed Grid equal the Grid built from the "
    "explicit mapping; SGRID wins over COMODO when declared; user coords (the parsed axes, a subset, disjoint axes, a superset) + parsed coords are rejected; after an in-place correction of the annotation (left <-> right) a second Grid(ds) on the same dataset object follows the corrected attributes. Class = "
    "(convention, kind, per-axis (positions or padding word), name style); non-trivial iff some axis has a non-center position."
)
REQUIRED_REACH = [
    "xgcm.metadata_parsers.parse_metadata",
    "xgcm.comodo.get_axis_positions_and_coords",
    "xgcm.sgrid.get_axis_positions_and_coords",
    "xgcm.sgrid.assert_valid_sgrid",
]
HOSTILE = ["x", "xx", "x_", "xc", "xcg", "p", "a", "d", "pad", "padding", "ing", "low", "high", "both", "none",
           "n", "lo", "hi", "X", "Xc", "xi", "xi_rho", "eta", "eta_rho", "s", "s_w", "node", "face", "g", "_"]


def ident(rng, used, style):
    while True:
        if style == "hostile":
            s = rng.choice(HOSTILE)
            if s in used:
                s = s + rng.choice(string.ascii_lowercase + "_0")
        elif style == "punctuated":
            # names that are legal netCDF / xarray dimension names without being identifiers (a hyphen or a dot inside)
            s = rng.choice(["xi", "eta", "s", "x", "lon", "grid"]) + rng.choice("-.") + rng.choice(["rho", "psi", "w", "c", "n", "u", "1"])
        else:
            s = rng.choice(string.ascii_letters) + "".join(
                rng.choice(string.ascii_letters + string.digits + "_") for _ in range(rng.randint(0, 5)))
        if s not in used and s not in gen.POSITIONS:
            used.add(s)
            return s


def gen_case(rng, i, tier):
    style = rng.choice(["simple", "random", "hostile"])
    used = set()
    if rng.random() < 0.5:
        nax = rng.randint(1, 3)
        names = rng.sample(gen.AXIS_NAME_POOL + ["Q", "t", "e"], nax)
        spec = {}
        for a in names:
            ps = gen.random_positions(rng, 0.5, at_least=1)
            n = rng.randint(1, 6)
            spec[a] = {"n": n, "pos": {p: (f"{a}_{p}" if style == "simple" else ident(rng, used, style)) for p in ps}}
        return {"conv": "comodo", "spec": spec, "style": style, "aseed": rng.getrandbits(31),
                "conflict": rng.random() < 0.1}
    kind = rng.choice(["1d", "2d", "2dv", "3d"])
    nax = {"1d": 1, "2d": 2, "2dv": 3, "3d": 3}[kind]
    if i % 5 == 3:
        style = "punctuated"
    spec = {}
    for a in "XYZ"[:nax]:
        n = rng.randint(1, 5)
        pad = rng.choice(list(conv.PAD2POS))
        if style == "simple":
            c, nd = a.lower() + "c", a.lower() + "g"
        else:
            c, nd = ident(rng, used, style), ident(rng, used, style)
        spec[a] = {"n": n, "pos": {"center": c, conv.PAD2POS[pad]: nd}}
    return {"conv": "sgrid", "kind": kind, "spec": spec, "style": style, "aseed": rng.getrandbits(31),
            "with_comodo": rng.random() < 0.25, "conflict": rng.random() < 0.1,
            "entry_order": rng.getrandbits(16) if rng.random() < 0.4 else None}


def run_case(ctx, desc):
    import xarray as xr
    from xgcm import Grid

    spec = desc["spec"]
    rng = random.Random(desc["aseed"])
    if desc["conv"] == "comodo":
        ds = conv.comodo_dataset(spec, rng)
        ckey = ("comodo", sorted(tuple(sorted(ax["pos"])) for ax in spec.values()), desc["style"], min(ax["n"] for ax in spec.values()) == 1)
    else:
        ds = conv.sgrid_dataset(spec, desc["kind"], rng, with_comodo=desc["with_comodo"], entry_order_seed=desc.get("entry_order"))
        ckey = ("sgrid", desc["kind"], [sorted(ax["pos"])[-1] if sorted(ax["pos"])[0] == "center" else sorted(ax["pos"])[0] for ax in spec.values()],
                desc["style"], desc["with_comodo"], desc.get("entry_order") is not None)
    want = {a: dict(ax["pos"]) for a, ax in spec.items()}
    nontrivial = any(len(ax["pos"]) > 1 for ax in spec.values())
    ctx.judged(ckey, nontrivial)
    if ctx.evaluations % 60 == 1:
        ctx.sample({"case": desc, "attrs": {str(k): dict(v.attrs) for k, v in ds.variables.items() if v.attrs}, "global": dict(ds.attrs)})
    if desc["conflict"]:
        # user coords together with parsed ones must be rejected, not merged
        # ... whatever the user's mapping names: the parsed axes themselves, some of them, or only axes the metadata
        # does not describe (which would silently drop the parsed ones if it were accepted)
        dsu = ds.assign_coords(w_user=("w_user", np.arange(3.0)), w_user_l=("w_user_l", np.arange(3.0) - 0.5))
        wuser = {"center": "w_user", "left": "w_user_l"}
        first = sorted(want)[0]
        for kind, user in (("same", want), ("subset", {first: want[first]}), ("disjoint", {"Wuser": wuser}),
                           ("superset", dict(want, Wuser=wuser))):
            ctx.judged(("conflict", desc["conv"], kind), True)
            try:
                gbad = Grid(dsu, coords=user, periodic=False)
                ctx.violation("user-coords-plus-parsed-rejected", f"Grid(ds, coords={user}) on an annotated {desc['conv']} dataset "
                                                                  f"(parsed axes {sorted(want)}) was accepted ({kind}); axes {list(gbad.axes)}")
                break
            except Exception:
                pass
    try:
        g = Grid(ds, periodic=False)
    except Exception as e:
        ctx.violation("annotated-dataset-parsed", f"Grid(ds) raised {type(e).__name__}: {str(e)[:200]}; spec {want}",
                      mechanism=None)
        return
    got = {a: dict(ax.coords) for a, ax in g.axes.items()}
    if got != want:
        ctx.violation("parsed-topology-equals-spec", f"parsed {got}, prescribed {want}")
        return
    # same results as the Grid built from the explicit mapping
    gx = Grid(ds, coords=want, periodic=False, autoparse_metadata=False)
    for a, ax in spec.items():
        others = [p for p in ax["pos"] if p != "center"]
        if not others:
            continue
        dims = [x["pos"]["center"] for x in spec.values()]
        shape = [ds.sizes[d] for d in dims]
        da = xr.DataArray(gen.quarter_data(desc["aseed"], shape), dims=dims)
        to = others[desc["aseed"] % len(others)]
        op = ["diff", "interp"][desc["aseed"] % 2]
        ctx.judged(("same-results", desc["conv"], to), True)
        try:
            r1 = getattr(g, op)(da, a, to=to, boundary="extend")
            r2 = getattr(gx, op)(da, a, to=to, boundary="extend")
            if r1.dims != r2.dims or not np.array_equal(r1.values, r2.values):
                ctx.violation("parsed-grid-computes-like-explicit", f"{op} along {a} to {to} differs between parsed and explicit Grid")
        except Exception as e:
            ctx.violation("parsed-grid-computes-like-explicit", f"{op} along {a} to {to} raised {type(e).__name__}: {str(e)[:150]}")
    # the annotation corrected in place (a left coordinate that should have been a right one, padding high -> low) and the
    # Grid built again from the very same dataset object: what is parsed is what the attributes say now
    swap = {"left": "right", "right": "left"}
    cand = [a for a, ax in spec.items() if any(p in swap for p in ax["pos"]) and not (set(ax["pos"]) >= {"left", "right"})]
    if cand:
        a = cand[desc["aseed"] % len(cand)]
        spec2 = {b: {"n": ax["n"], "pos": ({swap.get(p, p): d for p, d in ax["pos"].items()} if b == a else dict(ax["pos"]))} for b, ax in spec.items()}
        want2 = {b: dict(ax["pos"]) for b, ax in spec2.items()}
        if desc["conv"] == "comodo":
            for p, d in spec2[a]["pos"].items():
                if p in swap:
                    ds.variables[d].attrs["c_grid_axis_shift"] = 0.5 if p == "right" else -0.5
        else:
            ds.variables["grid"].attrs.update(conv.sgrid_attrs(spec2, desc["kind"], random.Random(desc["aseed"] + 1), desc.get("entry_order")))
        ctx.judged(("re-annotated-in-place", desc["conv"], desc.get("kind")), True)
        try:
            g2 = Grid(ds, periodic=False)
            got2 = {b: dict(ax.coords) for b, ax in g2.axes.items()}
            if got2 != want2:
                ctx.violation("parsed-topology-equals-spec", f"after the annotation of axis {a} was corrected in place on the same dataset object, Grid(ds) parsed {got2}, "
                                                             f"the attributes now prescribe {want2}")
        except Exception as e:
            ctx.violation("annotated-dataset-parsed", f"Grid(ds) after an in-place correction of the annotation raised {type(e).__name__}: {str(e)[:200]}")
