"""C10 - the metric applied is the one registered for the array's position and axes."""
import itertools
import warnings

import numpy as np

from .. import gen
from ..models import stencil

ID = "C10"
NEEDS_SHIM = False
BUDGET = {"quick": 1600, "thorough": 120000}
MIN_EVALS = {"quick": 2500, "thorough": 60000}
RULE = (
    "seeded random cases: grid of 1-3 axes with random position sets (2-4 cells), a random registry of non-uniform "
    "integer metrics over random subsets of axes x position tuples (complete / partial / only elsewhere), an array at a "
    "random position tuple (shuffled dims, optional extra dim), a requested axis subset in random order; a fifth of the metrics also varies along another grid axis, and 15% of the multi-axis cases are curvilinear (dx(y,x), dy(y,x) on the same points, nothing registered for the pair). Verdicts: "
    "get_metric result in the model's acceptable set (exact-set at position, else interpolated with extension + warning, "
    "else partition products by level, per block at-position before interpolated), broadcastability, KeyError iff the "
    "model has no candidate; integrate (all axis orders), average (constant field, NaN data), derivative, cumint and "
    "metric_weighted diff/interp and the two-axis derivative compared with their definition in terms of the metric get_metric returned; the data is "
    "float64, or int64 / bool / float32 (integrate and average must not depend on the data's type beyond its values). Class = "
    "(verdict kind, deciding level, per-block source at/interp, #axes); non-trivial iff more than one registered "
    "candidate or an interpolation or a product is involved."
)
REQUIRED_REACH = ["xgcm.grid.Grid.get_metric", "xgcm.grid.Grid.interp_like", "xgcm.metrics.iterate_axis_combinations",
                  "xgcm.grid.Grid.integrate", "xgcm.grid.Grid.average", "xgcm.grid.Grid.derivative"]


def gen_case(rng, i, tier):
    nax = rng.randint(1, 3)
    layout = gen.random_layout(rng, nax=nax, nmin=2, nmax=gen.deep(rng, tier, 4, 7), p=0.45, at_least=1)
    axes = layout["axes"]
    axn = [a["name"] for a in axes]
    cm = gen.layout_coords(layout)
    reg = []  # ordered registrations: [axes tuple, [[varname, positions tuple], ...]]
    k = 0
    density = rng.choice([0.35, 0.6, 0.9])
    for r in range(1, nax + 1):
        for sub in itertools.combinations(axn, r):
            if rng.random() < density:
                cands = list(itertools.product(*[list(cm[a]) for a in sub]))
                rng.shuffle(cands)
                lst = []
                for pos in cands[: rng.randint(1, min(3, len(cands)))]:
                    lst.append([f"m{k}", list(pos)])
                    k += 1
                reg.append([list(sub), lst])
    competing = nax == 3 and rng.random() < 0.4
    if competing:
        # "largest block first": all single-axis metrics plus one or two two-axis metrics, nothing for the full set,
        # everything at the array's position - a two-axis block must be used, not the product of three singles
        apos = {a: rng.choice(list(cm[a])) for a in axn}
        reg, k = [], 0
        for sub in [(a,) for a in axn] + rng.sample(list(itertools.combinations(axn, 2)), rng.randint(1, 2)):
            reg.append([list(sub), [[f"m{k}", [apos[a] for a in sub]]]])
            k += 1
    curv = (not competing) and nax >= 2 and rng.random() < 0.15
    forced_cross = {}
    if curv:
        # curvilinear grid: every one-axis metric varies along both horizontal axes and all sit on the same points
        # (dx(y, x), dy(y, x)); nothing is registered for the pair, so its metric is the product of the two, each one
        # brought to the array's position on its own
        a, b = rng.sample(axn, 2)
        mp = {a: rng.choice(list(cm[a])), b: rng.choice(list(cm[b]))}
        reg = [[[a], [["m0", [mp[a]]]]], [[b], [["m1", [mp[b]]]]]]
        forced_cross = {"m0": [[b, mp[b]]], "m1": [[a, mp[a]]]}
        apos = {x: rng.choice(list(cm[x])) for x in axn}
    rng.shuffle(reg)
    if not competing and not curv:
        apos = {a: rng.choice(list(cm[a])) for a in axn}
    q = rng.sample(axn, rng.randint(1, nax)) if not competing else rng.sample(axn, 3)
    if curv:
        q = rng.sample([a, b], 2) + ([x for x in axn if x not in (a, b)] if rng.random() < 0.2 else [])
    adims = [cm[a][apos[a]] for a in axn if a in q or rng.random() < 0.6]
    extra = {}
    if rng.random() < 0.4:
        extra["time"] = 2
        adims.append("time")
    rng.shuffle(adims)
    # a metric may depend on a non-grid dimension too (a time-dependent cell thickness): only when the array has it
    tdep = [nm for _, lst in reg for nm, _ in lst if rng.random() < 0.15] if "time" in extra else []
    # a metric may also vary along a grid axis it does not belong to (dx(y, x) of a curvilinear grid registered for X):
    # only along axes of which the array carries a dimension, so that the metric can be brought to the array's position
    cross = dict(forced_cross)
    for sub, lst in ([] if curv else reg):
        for nm, _ in lst:
            others = [b for b in axn if b not in sub and cm[b][apos[b]] in adims]
            if others and rng.random() < 0.2:
                b = rng.choice(others)
                cross[nm] = [[b, rng.choice(list(cm[b])) if rng.random() < 0.4 else apos[b]]]
    return {"layout": layout, "registry": reg, "apos": apos, "query": q, "adims": adims, "extra": extra,
            "mseed": rng.getrandbits(31), "dseed": rng.getrandbits(31), "periodic": rng.random() < 0.3, "time_dependent": tdep, "cross": cross,
            # the data may be integer-typed (counts), a boolean mask or single precision: "for all data values"
            "dtype": rng.choice(["float64"] * 7 + ["int64", "bool", "float32"]),
            # dimensions with coordinate variables, without, or mixed
            "withdim": rng.choice([True, True, True, False, "mixed"])}


def build(desc):
    from xgcm import Grid

    wd = desc.get("withdim", True)
    if wd == "mixed":
        rr = np.random.default_rng(desc["mseed"] + 1)
        wd = [d for a in desc["layout"]["axes"] for _, d in a["pos"] if rr.random() < 0.5]
    ds = gen.build_ds(desc["layout"], with_coords=wd, extra=desc["extra"])
    cm = gen.layout_coords(desc["layout"])
    r = np.random.default_rng(desc["mseed"])
    mets = {}
    for sub, lst in desc["registry"]:
        names = []
        for nm, pos in lst:
            dims = [cm[a][p] for a, p in zip(sub, pos)]
            dims = dims + [cm[b][pb] for b, pb in desc.get("cross", {}).get(nm, [])]
            if nm in desc.get("time_dependent", []):
                dims = dims + ["time"]
            shp = [ds.sizes[d] for d in dims]
            ds[nm] = (dims, r.integers(1, 33, size=shp).astype(float) / 4)  # non-uniform quarter-integers: products/halves stay exact
            names.append(nm)
        mets[tuple(sub)] = names
    g = Grid(ds, coords=cm, periodic=desc["periodic"], autoparse_metadata=False, metrics=mets)
    return ds, g


class Model:
    def __init__(self, desc, ds):
        self.desc = desc
        self.ds = ds
        self.cm = gen.layout_coords(desc["layout"])
        self.ns = {a["name"]: a["n"] for a in desc["layout"]["axes"]}
        self.axn = [a["name"] for a in desc["layout"]["axes"]]
        self.reg = {frozenset(sub): [nm for nm, _ in lst] for sub, lst in desc["registry"]}
        self.adims = set(desc["adims"])

    def at_pos(self, nm):
        return set(self.ds[nm].dims) <= self.adims

    def interp_to(self, nm):
        """-> (lo, hi, dims, exact).  A move that involves the center position is modelled exactly (lo == hi).  For a
        move between two non-center positions the statement fixes no formula, only "interpolated ... with nearest-value
        extension": whatever the scheme (direct shift, two linear hops through the center), every output value is a
        convex combination of source values within 1.5 cells of its location, the array ends being extended by their
        nearest value - so it must lie between the local minimum and maximum of the source."""
        v = self.ds[nm]
        lo = hi = v.values
        dims = list(v.dims)
        exact = True
        for a in self.axn:
            ps = [p for p, d in self.cm[a].items() if d in dims]
            if not ps:
                continue
            frm, to = ps[0], self.desc["apos"][a]
            if self.cm[a][to] not in self.adims:
                # the array has no dimension on this axis: nothing to interpolate to
                continue
            if frm == to:
                continue
            k = dims.index(self.cm[a][frm])
            if "center" in (frm, to):
                lo = np.moveaxis(stencil.op_last_axis(np.moveaxis(lo, k, -1), "interp", frm, to, self.ns[a], "extend", 0.0), -1, k)
                hi = lo if exact else np.moveaxis(stencil.op_last_axis(np.moveaxis(hi, k, -1), "interp", frm, to, self.ns[a], "extend", 0.0), -1, k)
            else:
                exact = False
                xi, xo = stencil.xs(frm, self.ns[a]), stencil.xs(to, self.ns[a])
                ml, mh = np.moveaxis(lo, k, -1), np.moveaxis(hi, k, -1)
                los, his = [], []
                for x in xo:
                    idx = [j for j, xv in enumerate(xi) if abs(xv - x) <= 1.5]
                    if not idx:
                        idx = [int(np.argmin([abs(xv - x) for xv in xi]))]
                    los.append(ml[..., idx].min(-1))
                    his.append(mh[..., idx].max(-1))
                lo = np.moveaxis(np.stack(los, -1), -1, k)
                hi = np.moveaxis(np.stack(his, -1), -1, k)
            dims[k] = self.cm[a][to]
        return lo, hi, dims, exact

    def block_options(self, block):
        lst = self.reg.get(frozenset(block))
        if not lst:
            return None
        here = [nm for nm in lst if self.at_pos(nm)]
        if here:
            return [("at", nm, self.ds[nm].values, self.ds[nm].values, list(self.ds[nm].dims), True) for nm in here]
        return [("interp", nm) + self.interp_to(nm) for nm in lst]

    def levels(self, q):
        q = list(q)
        if len(q) == 1:
            return [[[q]]]
        if len(q) == 2:
            return [[[q]], [[[q[0]], [q[1]]]]]
        return [
            [[q]],
            [[list(c), [x for x in q if x not in c]] for c in itertools.combinations(q, 2)],
            [[[x] for x in q]],
        ]

    def acceptable(self, q):
        """-> (level index, [candidates]) ; candidate = (sources, DataArray-or-None(exactness unknown))."""
        import xarray as xr

        for li, level in enumerate(self.levels(q)):
            cands = []
            for part in level:
                opts = [self.block_options(b) for b in part]
                if any(o is None for o in opts):
                    continue
                for combo in itertools.product(*opts):
                    plo = phi = 1
                    exact = all(c[5] for c in combo)
                    for c in combo:
                        # metrics are positive, so bounds multiply
                        plo = plo * xr.DataArray(c[2], dims=c[4])
                        phi = phi * xr.DataArray(c[3], dims=c[4])
                    cands.append(([(c[0], c[1]) for c in combo], plo, exact, phi))
            if cands:
                return li, cands
        return None, []


def same_by_name(a, b):
    if set(a.dims) != set(b.dims):
        return False
    return np.array_equal(a.transpose(*b.dims).values, b.values, equal_nan=True)


def run_case(ctx, desc):
    import xarray as xr

    try:
        ds, g = build(desc)
    except Exception as e:
        ctx.judged(("ctor-raise",), True)
        ctx.violation("grid-constructor-accepts", f"Grid(metrics=...) raised {type(e).__name__}: {e}")
        return
    M = Model(desc, ds)
    adims = desc["adims"]
    q = desc["query"]
    shape = [ds.sizes[d] for d in adims]
    arr = xr.DataArray(gen.quarter_data(desc["dseed"], shape), dims=adims, name="v")
    dt = desc.get("dtype", "float64")
    if dt == "int64":
        arr = (arr * 4).astype("int64")
    elif dt == "bool":
        arr = arr > 0
    elif dt == "float32":
        arr = arr.astype("float32")  # quarter-integers are exact in single precision; the metrics stay double
    level, cands = M.acceptable(q)
    with warnings.catch_warnings(record=True) as ws:
        warnings.simplefilter("always")
        try:
            r = g.get_metric(arr, q)
            err = None
        except Exception as e:
            r, err = None, e
    srcs = sorted({tuple(s for s, _ in c[0]) for c in cands})
    nontrivial = len(cands) > 1 or level not in (0, None) or any("interp" in s for s in srcs)
    ckey = ("get_metric", level, srcs[:3], len(q), len(cands) > 1, [desc["apos"][a] for a in sorted(q)])
    ctx.judged(ckey, nontrivial)
    if ctx.evaluations % 40 == 1:
        ctx.sample({"case": desc, "deciding_level": level, "n_acceptable": len(cands)})
    if level is None:
        if err is None:
            ctx.violation("get_metric-acceptable-set", f"returned a metric although nothing is registered for any partition of {q}")
        return
    if err is not None:
        ctx.violation("get_metric-acceptable-set", f"raised {type(err).__name__}: {str(err)[:200]} although {len(cands)} candidates exist (level {level})")
        return
    if not set(r.dims) <= set(adims):
        ctx.violation("metric-broadcasts", f"metric dims {r.dims} do not broadcast against array dims {tuple(adims)}; candidates {[c[0] for c in cands][:4]}")
        return
    inexact = [c for c in cands if not c[2]]
    ok = any(c[2] and same_by_name(r, c[1]) for c in cands)
    if not ok and inexact:
        # a block had to be moved between two non-center positions: the statement fixes no formula for that, only
        # nearest-value extension, so the values are judged against local [min, max] bounds of the source
        ctx.count("noncenter_move_judged_by_local_bounds")
        for c in inexact:
            if set(r.dims) != set(c[1].dims):
                continue
            rv = r.transpose(*c[1].dims).values
            if np.all(rv >= c[1].values - 1e-12) and np.all(rv <= c[3].values + 1e-12):
                ok = True
                break
    if not ok:
        ctx.violation("get_metric-acceptable-set", f"returned metric equals none of {len(cands)} acceptable candidates {[c[0] for c in cands][:4]} (level {level}, array pos {desc['apos']}, query {q})")
        return
    if all(any(s == "interp" for s, _ in c[0]) for c in cands):
        ctx.judged(("warning", level), True)
        if not ws:
            ctx.violation("interpolation-warns", "metric was interpolated but no warning was emitted")
    metric = r

    # ---- the same query after one registered variable has been replaced (overwrite=True): the answer must follow the
    # registry as it is *now* (no stale selection or interpolation may survive a re-registration)
    if desc["dseed"] % 3 == 0 and desc["registry"]:
        sub, lst = desc["registry"][desc["dseed"] % len(desc["registry"])]
        nm0 = lst[desc["dseed"] % len(lst)][0]
        newname = nm0 + "_new"
        if ds[nm0].ndim >= 2 and desc["dseed"] % 2:
            # the replacement sits at the same position but is stored with its dimensions in another order (as a product
            # dx * dy comes out): the same slot
            ds[newname] = (ds[nm0].dims[::-1], (ds[nm0].values * 2 + 0.25).T)
        else:
            ds[newname] = (ds[nm0].dims, ds[nm0].values * 2 + 0.25)
        ctx.judged(("requery-after-overwrite", level, len(q)), True)
        try:
            g.set_metrics(tuple(sub), newname, overwrite=True)
            M2 = Model(dict(desc, registry=[[sb, [[newname if n == nm0 else n, p] for n, p in ls]] for sb, ls in desc["registry"]]), ds)
            lvl2, cands2 = M2.acceptable(q)
            with warnings.catch_warnings():
                warnings.simplefilter("ignore")
                r2 = g.get_metric(arr, q)
            ok2 = any(c[2] and same_by_name(r2, c[1]) for c in cands2)
            if not ok2:
                for c in cands2:
                    if not c[2] and set(r2.dims) == set(c[1].dims):
                        rv = r2.transpose(*c[1].dims).values
                        if np.all(rv >= c[1].values - 1e-12) and np.all(rv <= c[3].values + 1e-12):
                            ok2 = True
                            break
            if not ok2:
                ctx.violation("get_metric-follows-current-registry", f"after set_metrics({sub}, {newname!r}, overwrite=True) replacing {nm0}: the "
                                                                     f"metric returned for {q} is none of the {len(cands2)} candidates of the updated registry")
                return
            metric = r2
        except Exception as e:
            ctx.violation("get_metric-follows-current-registry", f"re-registration or re-query raised {type(e).__name__}: {str(e)[:200]}")
            return

    # ---- operations defined through that metric -------------------------------------------
    cm = M.cm
    # integrate: sum of data*metric, any axis order
    ctx.judged(("integrate", len(q), level, dt), len(q) > 1)
    try:
        sdims = [cm[a][desc["apos"][a]] for a in q]
        want = (arr * metric).sum(sdims)
        # which of several equally ranked partitions is multiplied is C12's business: across axis orders the
        # results must agree only when the deciding level offers a single candidate
        unambiguous = len({tuple(sorted(n for _, n in c[0])) for c in cands}) == 1
        for perm in itertools.permutations(q):
            it = g.integrate(arr, list(perm) if len(perm) > 1 or ctx.evaluations % 2 else perm[0])
            w = want  # "in any axis order": one metric, whatever the order in which the axes are listed
            if not same_by_name(it, w):
                ctx.violation("integrate-definition", f"integrate over {perm} != sum(data*metric) (unambiguous={unambiguous})")
                break
    except Exception as e:
        ctx.violation("integrate-definition", f"raised {type(e).__name__}: {str(e)[:200]}")
    # average: weighted mean over valid data; constant field -> constant
    ctx.judged(("average", len(q), level), True)
    try:
        cval = {"int64": 3, "bool": True}.get(dt, 3.25)
        const = xr.full_like(arr, cval)
        av = g.average(const, q)
        if not np.allclose(av.values, float(cval), rtol=1e-14, atol=0):
            ctx.violation("average-definition", f"average of the constant {cval} ({dt}) gives {np.ravel(av.values)[:3]}")
        if dt in ("int64", "bool"):
            av = g.average(arr, q)
            want = (arr * metric).sum(sdims) / (metric * xr.ones_like(arr)).sum(sdims)
            if set(av.dims) != set(want.dims) or not np.allclose(av.transpose(*want.dims).values, want.values, rtol=1e-13, atol=0):
                ctx.violation("average-definition", f"average of {dt} data != sum(data*metric)/sum(metric)")
        hole = arr.astype(float)
        flat = hole.values.reshape(-1)
        flat[:: 3] = np.nan
        av = g.average(hole, q)
        valid = hole.notnull()
        num = (hole.fillna(0) * metric).sum(sdims)
        den = (metric * valid).sum(sdims)
        want = num / den
        if set(av.dims) != set(want.dims) or not np.allclose(av.transpose(*want.dims).values, want.values, rtol=1e-13, atol=0, equal_nan=True):
            ctx.violation("average-definition", "average with NaNs != sum_valid(data*metric)/sum_valid(metric)")
    except Exception as e:
        ctx.violation("average-definition", f"raised {type(e).__name__}: {str(e)[:200]}")
    # derivative over several axes at once: the difference over all of them divided by the metric of the whole axis set at
    # the result's position (not a chain of one-axis derivatives through intermediate positions)
    if len(q) >= 2 and dt != "bool":
        q2 = list(q[:2])
        to2 = {}
        for x in q2:
            frm_x = desc["apos"][x]
            tos_x = [p for p in cm[x] if p != "center"] if frm_x == "center" else ["center"]
            if tos_x:
                to2[x] = tos_x[desc["dseed"] % len(tos_x)]
        if len(to2) == 2:
            try:
                df2 = g.diff(arr, q2, to=to2, boundary="extend")
                with warnings.catch_warnings():
                    warnings.simplefilter("ignore")
                    m2 = g.get_metric(df2, q2)
            except Exception:
                df2 = m2 = None
            if m2 is not None and set(m2.dims) <= set(df2.dims):
                ctx.judged(("derivative-2-axes", tuple(desc["apos"][x] for x in q2), tuple(to2[x] for x in q2)), True)
                try:
                    with warnings.catch_warnings():
                        warnings.simplefilter("ignore")
                        dv2 = g.derivative(arr, q2, to=to2, boundary="extend")
                    if not same_by_name(dv2, df2 / m2):
                        ctx.violation("derivative-definition", f"derivative over {q2} to {to2} != diff over both axes / metric of the axis set at the result position")
                except Exception as e:
                    ctx.violation("derivative-definition", f"derivative over {q2} raised {type(e).__name__}: {str(e)[:200]}")
    # derivative / metric_weighted / cumint on the first queried axis, when a shift exists
    a = q[0]
    frm = desc["apos"][a]
    ctx.count("cases_with_ambiguous_partition", 0 if unambiguous else 1)
    if dt == "bool":
        return  # differences of boolean masks are not defined (numpy refuses to subtract booleans)
    tos = [p for p in cm[a] if p != "center"] if frm == "center" else ["center"]
    if not tos:
        return
    to = tos[desc["dseed"] % len(tos)]
    try:
        df = g.diff(arr, a, to=to, boundary="extend")
    except Exception as e:
        ctx.violation("diff-for-derivative", f"diff raised {type(e).__name__}: {str(e)[:200]}")
        return
    try:
        with warnings.catch_warnings():
            warnings.simplefilter("ignore")
            m_out = g.get_metric(df, [a])
    except Exception:
        m_out = None
    if m_out is not None and not set(m_out.dims) <= set(df.dims):
        ctx.violation("metric-broadcasts", f"metric for the result of diff {frm}->{to} has dims {m_out.dims}, result has {df.dims}")
        return
    if m_out is not None:
        ctx.judged(("derivative", frm, to), True)
        try:
            dv = g.derivative(arr, a if desc["dseed"] % 3 else [a], to=to, boundary="extend")
            want = df / m_out
            if not same_by_name(dv, want):
                ctx.violation("derivative-definition", f"derivative {frm}->{to} != diff / metric at the result position")
        except Exception as e:
            ctx.violation("derivative-definition", f"raised {type(e).__name__}: {str(e)[:200]}")
        try:
            with warnings.catch_warnings():
                warnings.simplefilter("ignore")
                m_in = g.get_metric(arr, [a])
        except Exception:
            m_in = None
        if m_in is not None and set(m_in.dims) <= set(arr.dims):
            ctx.judged(("metric_weighted", frm, to), True)
            try:
                op = ["interp", "diff", "min"][desc["dseed"] % 3]
                mw = getattr(g, op)(arr, a, to=to, boundary="extend", metric_weighted=a if desc["dseed"] % 2 else (a,))
                want = getattr(g, op)(arr * m_in, a, to=to, boundary="extend") / m_out
                if not same_by_name(mw, want):
                    ctx.violation("metric_weighted-definition", f"{op}(metric_weighted) {frm}->{to} != op(data*m)/m(result)")
            except Exception as e:
                ctx.violation("metric_weighted-definition", f"raised {type(e).__name__}: {str(e)[:200]}")
    # several axes in one call, each weighted by its own metric (the documented per-axis mapping): equal to the one-axis
    # weighted calls applied one after another, each of which multiplies by the metric of *its* axis at the array's
    # current position and divides by the one at the result's position
    if len(q) >= 2 and dt != "bool":
        a0, a1 = q[0], q[1]
        tos2 = {}
        for ax in (a0, a1):
            f0 = desc["apos"][ax]
            cand = [p for p in cm[ax] if p != "center"] if f0 == "center" else ["center"]
            if cand:
                tos2[ax] = cand[desc["dseed"] % len(cand)]
        if len(tos2) == 2:
            op = ["interp", "diff", "max"][desc["dseed"] % 3]
            spell = (lambda x: x) if desc["dseed"] % 2 else (lambda x: (x,))
            try:
                with warnings.catch_warnings():
                    warnings.simplefilter("ignore")
                    s1 = getattr(g, op)(arr, a0, to=tos2[a0], boundary="extend", metric_weighted=spell(a0))
                    s2 = getattr(g, op)(s1, a1, to=tos2[a1], boundary="extend", metric_weighted=spell(a1))
            except Exception:
                s2 = None
            if s2 is not None:
                ctx.judged(("metric_weighted-per-axis", op, desc["apos"][a0], tos2[a0], desc["apos"][a1], tos2[a1]), True)
                try:
                    with warnings.catch_warnings():
                        warnings.simplefilter("ignore")
                        both = getattr(g, op)(arr, [a0, a1], to=dict(tos2), boundary="extend", metric_weighted={a0: spell(a0), a1: spell(a1)})
                    if set(both.dims) != set(s2.dims) or not np.allclose(both.transpose(*s2.dims).values, s2.values, rtol=1e-12, atol=1e-12, equal_nan=True):
                        ctx.violation("metric_weighted-definition", f"{op} over [{a0}, {a1}] with metric_weighted given per axis differs from the two one-axis weighted calls applied in turn")
                except Exception as e:
                    ctx.violation("metric_weighted-definition", f"{op} over two axes with a per-axis metric_weighted mapping raised {type(e).__name__}: {str(e)[:200]}")
