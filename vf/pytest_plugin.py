"""pytest plugin: runs the repository's own tests as a *workload* under the argument-snapshot monitor (C18 thorough).

Loaded with ``-p vf.pytest_plugin`` and active only when XGCM_VERIF=1 and VF_PLUGIN_OUT are set.  It wraps the public
entry points (Grid.__init__ and the Grid methods, xgcm.padding.pad in every namespace where the name is bound,
apply_as_grid_ufunc) and, for every outermost call, snapshots the arguments before and after - whether the call
returns or raises.  The tests' own assertions are irrelevant here; only the monitor's verdicts are collected.
The observed program is not changed: the wrapper calls the real function with the very same objects.
"""
import functools
import json
import os
import threading

ACTIVE = os.environ.get("XGCM_VERIF") == "1" and bool(os.environ.get("VF_PLUGIN_OUT"))
_state = threading.local()
STATS = {"calls": 0, "judged": 0, "violations": [], "by_api": {}}
MUTATORS = {"set_metrics"}


def _wrap(api, orig, is_init=False):
    from . import snapshot

    @functools.wraps(orig)
    def w(*a, **k):
        depth = getattr(_state, "depth", 0)
        if depth:
            return orig(*a, **k)
        _state.depth = 1
        try:
            try:
                objs = list(a[1:] if (is_init or api.startswith("Grid.")) else a) + list(k.values())
                before = [snapshot.snap(o) for o in objs]
                grid_before = None
                if api.startswith("Grid.") and not is_init and api.split(".")[1] not in MUTATORS:
                    grid_before = snapshot.snap_grid(a[0])
            except Exception:
                before = None
            STATS["calls"] += 1
            STATS["by_api"][api] = STATS["by_api"].get(api, 0) + 1
            outcome = "return"
            try:
                return orig(*a, **k)
            except BaseException:
                outcome = "raise"
                raise
            finally:
                if before is not None:
                    try:
                        after = [snapshot.snap(o) for o in objs]
                        STATS["judged"] += 1
                        for i, (x, y) in enumerate(zip(before, after)):
                            if x != y:
                                STATS["violations"].append({"api": api, "outcome": outcome, "arg": i,
                                                            "diff": snapshot.diff(x, y, f"arg{i}")[:300],
                                                            "test": os.environ.get("PYTEST_CURRENT_TEST", "")})
                                break
                        if grid_before is not None:
                            ga = snapshot.snap_grid(a[0])
                            if ga != grid_before:
                                STATS["violations"].append({"api": api, "outcome": outcome, "arg": "grid",
                                                            "diff": snapshot.diff(grid_before, ga, "grid")[:300],
                                                            "test": os.environ.get("PYTEST_CURRENT_TEST", "")})
                    except Exception:
                        pass
        finally:
            _state.depth = 0

    return w


def pytest_configure(config):
    if not ACTIVE:
        return
    import xgcm
    import xgcm.grid
    import xgcm.grid_ufunc
    import xgcm.padding

    G = xgcm.grid.Grid
    for name in ["__init__", "diff", "interp", "min", "max", "cumsum", "derivative", "integrate", "average", "cumint", "get_metric",
                 "set_metrics", "interp_like", "apply_as_grid_ufunc", "diff_2d_vector", "interp_2d_vector", "transform"]:
        setattr(G, name, _wrap("Grid." + name, getattr(G, name), is_init=(name == "__init__")))
    wp = _wrap("pad", xgcm.padding.pad)
    for m in (xgcm.padding, xgcm.grid, xgcm.grid_ufunc):
        m.pad = wp
    wa = _wrap("apply_as_grid_ufunc", xgcm.grid_ufunc.apply_as_grid_ufunc)
    for m in (xgcm.grid_ufunc, xgcm.grid, xgcm):
        m.apply_as_grid_ufunc = wa


def pytest_unconfigure(config):
    if not ACTIVE:
        return
    out = os.environ["VF_PLUGIN_OUT"]
    worker = os.environ.get("PYTEST_XDIST_WORKER", "main")
    with open(f"{out}.{worker}.json", "w") as f:
        json.dump(STATS, f)
