"""Which boundary rule / fill value is in force for an axis (C02's resolution statement).

call argument (scalar, or mapping naming the axis) else Grid-level argument (same spellings)
else periodic wrap for a periodic axis / fill with 0 for a non-periodic one; `periodic` may be
bool, list (axis non-periodic iff not named) or a (total) mapping.
"""


def _pick(spec, ax):
    if isinstance(spec, dict):
        return spec.get(ax)
    return spec


def is_periodic(periodic, ax):
    if isinstance(periodic, (list, tuple)):
        return ax in periodic
    if isinstance(periodic, dict):
        return bool(periodic.get(ax, True))
    return bool(periodic)


def in_force(ax, ctor, call=None):
    """-> (rule, fill_value).  ctor/call: dicts with optional keys periodic, boundary, fill_value."""
    call = call or {}
    rule = _pick(call.get("boundary"), ax)
    if rule is None:
        rule = _pick(ctor.get("boundary"), ax)
    if rule is None:
        rule = "periodic" if is_periodic(ctor.get("periodic", True), ax) else "fill"
    fv = _pick(call.get("fill_value"), ax)
    if fv is None:
        fv = _pick(ctor.get("fill_value"), ax)
    if fv is None:
        fv = 0.0
    return rule, fv
