"""Geometric statement of the two-point stencil operators (C01) and of cumsum (C09).

Positions are coordinates on the unit lattice: cell i spans [i, i+1]; center i+1/2, left i,
right i+1, inner i+1 (i < N-1), outer i (i <= N).  A target point at x takes the input values
at x-1/2 and x+1/2; indices beyond the input array come from the boundary rule.  The (lo, hi)
padding widths of the implementation are thereby *derived*, not copied.
"""
import numpy as np

from ..gen import POS_LEN, POS_X0
from .pad import pad_value

OPS = {
    "diff": lambda l, r: r - l,
    "interp": lambda l, r: (l + r) / 2,
    # the same mean, formed without the intermediate sum: identical wherever l + r is representable, and the mean itself
    # (instead of inf) where it is not
    "interp_halves": lambda l, r: l / 2 + r / 2,
    "min": lambda l, r: np.minimum(l, r),
    "max": lambda l, r: np.maximum(l, r),
}

FALLBACK = {"center": ("left", "right", "outer", "inner"), "left": ("center",), "right": ("center",),
            "outer": ("center",), "inner": ("center",)}


def default_to(frm, available, default_shifts=None):
    if default_shifts and frm in default_shifts:
        return default_shifts[frm]
    for p in FALLBACK[frm]:
        if p in available:
            return p
    return None


def xs(pos, n):
    return [POS_X0[pos] + i for i in range(n + POS_LEN[pos])]


def op_last_axis(a, op, frm, to, n, rule, fv):
    """Apply op along the last axis of ndarray a (input at `frm`, output at `to`, n cells)."""
    x0 = POS_X0[frm]
    out = []
    f = OPS[op]
    for x in xs(to, n):
        il = int(round((x - 0.5) - x0))
        ir = int(round((x + 0.5) - x0))
        out.append(f(pad_value(a, il, rule, fv), pad_value(a, ir, rule, fv)))
    if not out:
        return np.zeros(a.shape[:-1] + (0,))
    return np.stack(out, -1)


def depends_on_boundary(frm, to):
    return not ((frm == "outer" and to == "center") or (frm == "center" and to == "inner"))


def cumsum_last_axis(a, frm, to, n, rule, fv):
    """Running sum: target at x = sum of inputs with coordinate < x; a leading target that lies
    before the first input takes the boundary rule applied to the array of remaining sums."""
    xi = xs(frm, n)
    xo = xs(to, n)
    vals = []
    lead = False
    for x in xo:
        if x <= xi[0]:
            lead = True
            continue
        k = sum(1 for v in xi if v < x)
        vals.append(a[..., :k].sum(-1))
    body = np.stack(vals, -1) if vals else np.zeros(a.shape[:-1] + (0,))
    if lead:
        first = pad_value(body, -1, rule, fv)
        body = np.concatenate([np.asarray(first)[..., None], body], -1)
    return body
