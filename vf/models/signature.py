"""Hand-written recogniser / printer / canonicaliser for the grid-ufunc signature language (C15).

Independent of the repository's regular expressions: a character-level scanner.
A signature is   ARGLIST '->' ARGLIST ;  ARGLIST = ARG (',' ARG)* ;  ARG = '(' [PAIR (',' PAIR)*] ')' ;
PAIR = NAME ':' POSITION ; NAME = one or more word characters ; POSITION one of the five words.
Spaces are insignificant.  Returns None for malformed text.
"""
import re

POSW = ("center", "left", "right", "inner", "outer")
_WORD = re.compile(r"\w+\Z")


def parse(text):
    """-> (ins, outs) with ins/outs = list of arguments, argument = list of (name, position); or None."""
    s = text.replace(" ", "")
    if s.count("->") != 1:
        return None
    lhs, rhs = s.split("->")

    def side(x):
        if x == "":
            return None
        args = []
        i, n = 0, len(x)
        while True:
            if i >= n or x[i] != "(":
                return None
            j = x.find(")", i)
            if j < 0:
                return None
            inner = x[i + 1:j]
            if "(" in inner:
                return None
            pairs = []
            if inner != "":
                for pr in inner.split(","):
                    if pr.count(":") != 1:
                        return None
                    nm, ps = pr.split(":")
                    if not nm or not _WORD.match(nm) or ps not in POSW:
                        return None
                    pairs.append((nm, ps))
            args.append(pairs)
            i = j + 1
            if i == n:
                return args
            if x[i] != ",":
                return None
            i += 1

    a, b = side(lhs), side(rhs)
    if a is None or b is None:
        return None
    return a, b


def has_empty_argument(text):
    """'()' somewhere: the statement does not say whether an argument without pairs is well-formed."""
    return "()" in text.replace(" ", "")


def uses_position_word_as_name(parsed):
    ins, outs = parsed
    return any(nm in POSW for arg in ins + outs for nm, _ in arg)


def render(ins, outs):
    f = lambda args: ",".join("(" + ",".join(f"{n}:{p}" for n, p in arg) + ")" for arg in args)  # noqa: E731
    return f(ins) + "->" + f(outs)


def canonical(parsed):
    """Dummy names replaced by their rank of first appearance (inputs first, then outputs)."""
    ins, outs = parsed
    rank = {}
    for arg in ins + outs:
        for nm, _ in arg:
            rank.setdefault(nm, len(rank))
    conv = lambda args: tuple(tuple((rank[n], p) for n, p in arg) for arg in args)  # noqa: E731
    return conv(ins), conv(outs)


def equivalent(p1, p2):
    return canonical(p1) == canonical(p2)


def rename(parsed, mapping):
    ins, outs = parsed
    conv = lambda args: [[(mapping.get(n, n), p) for n, p in arg] for arg in args]  # noqa: E731
    return conv(ins), conv(outs)


def names_of(parsed):
    ins, outs = parsed
    out = []
    for arg in ins + outs:
        for nm, _ in arg:
            if nm not in out:
                out.append(nm)
    return out
