"""Reference models for the vertical transforms (C07, C08): exact overlap weights in rationals and
an own piecewise-linear interpolation (own bracketing search, no np.interp)."""
import math
from fractions import Fraction as F


def conservative_weights(theta, bins):
    """theta: n+1 values on the cell bounds; bins: m+1 strictly increasing edges.
    -> (W[j][i] as Fractions, amb[i]) where amb[i] lists the bins a homogeneous (zero-length) cell may go to
    (weight 1 in exactly one of them); amb[i] is None for ordinary cells."""
    n, m = len(theta) - 1, len(bins) - 1
    W = [[F(0)] * n for _ in range(m)]
    amb = [None] * n
    fb = [F(b) for b in bins]
    for i in range(n):
        lo, hi = sorted((F(theta[i]), F(theta[i + 1])))
        if lo == hi:
            amb[i] = [j for j in range(m) if fb[j] <= lo <= fb[j + 1]]
            continue
        for j in range(m):
            a, b = max(lo, fb[j]), min(hi, fb[j + 1])
            if b > a:
                W[j][i] = (b - a) / (hi - lo)
    return W, amb


def inside_span(theta_i, theta_i1, bins):
    lo, hi = sorted((theta_i, theta_i1))
    return min(bins) <= lo and hi <= max(bins)


def linear_interp(xs, ys, level, mask_edges):
    """Piecewise-linear interpolant of (xs strictly monotonic, ys) at `level`.
    Outside [min, max]: NaN when mask_edges else the nearest end value. -> (value, exact_node)"""
    pts = list(zip(xs, ys))
    if pts[0][0] > pts[-1][0]:
        pts = pts[::-1]
    x0, xn = pts[0][0], pts[-1][0]
    if level < x0:
        return (math.nan if mask_edges else pts[0][1]), True
    if level > xn:
        return (math.nan if mask_edges else pts[-1][1]), True
    for (xa, ya), (xb, yb) in zip(pts[:-1], pts[1:]):
        if level == xa:
            return ya, True
        if level == xb:
            return yb, True
        if xa < level < xb:
            # exact in rationals, rounded once
            fa, fb_, fl = F(xa), F(xb), F(level)
            w = (fl - fa) / (fb_ - fa)
            return float(F(ya) + w * (F(yb) - F(ya))), False
    raise AssertionError("unreachable")
