"""Geometric model of a rectangular domain cut into Kx x Ky square faces of N x N cells, each face with an
orientation in the dihedral group D4 (C03, C04, and the geometric tables of C05).

Local cell (i, j) of face f (i along local X, j along local Y) sits at global cell l2g(f, i, j).  The link
table implied by the geometry is derived here from the orientations alone; a junction is *expressible* in
the face_connections format iff  same-axis => along-edge aligned;  axis-swapping non-reversed => mirrored;
axis-swapping reversed => aligned.
"""
import itertools

import numpy as np

E = {"X": np.array([1, 0]), "Y": np.array([0, 1])}
D4 = []
for perm in ([0, 1], [1, 0]):
    for sx in (1, -1):
        for sy in (1, -1):
            M = np.zeros((2, 2), int)
            M[perm[0], 0] = sx
            M[perm[1], 1] = sy
            D4.append(M)
ROT = [M for M in D4 if int(round(np.linalg.det(M))) == 1]


class Topo:
    def __init__(self, Kx, Ky, N, orients, periodic):
        self.Kx, self.Ky, self.N, self.per = Kx, Ky, N, periodic
        self.or_ = [np.array(M) for M in orients]
        self.inv = [np.array(np.round(np.linalg.inv(M)), int) for M in self.or_]
        self.nf = Kx * Ky

    def fpos(self, f):
        return f % self.Kx, f // self.Kx

    def fidx(self, fx, fy):
        return fy * self.Kx + fx

    def l2g(self, f, i, j):
        N = self.N
        fx, fy = self.fpos(f)
        # doubled coordinates keep everything integral: centre of the face is at (N-1) in doubled units
        v = self.or_[f] @ np.array([2 * i - (N - 1), 2 * j - (N - 1)])
        return (int(v[0]) + (N - 1)) // 2 + fx * N, (int(v[1]) + (N - 1)) // 2 + fy * N

    def g2l(self, I, J):
        N = self.N
        fx, fy = I // N, J // N
        f = self.fidx(fx, fy)
        v = self.inv[f] @ np.array([2 * (I - fx * N) - (N - 1), 2 * (J - fy * N) - (N - 1)])
        return f, (int(v[0]) + (N - 1)) // 2, (int(v[1]) + (N - 1)) // 2

    def wrapcell(self, I, J):
        W, H = self.Kx * self.N, self.Ky * self.N
        if self.per:
            return I % W, J % H
        if 0 <= I < W and 0 <= J < H:
            return I, J
        return None

    def table(self):
        """-> {face: {axis: (left, right)}} or None if some junction is not expressible."""
        t = {}
        for f in range(self.nf):
            t[f] = {}
            fx, fy = self.fpos(f)
            for a in "XY":
                links = []
                for s in (-1, 1):
                    D = self.or_[f] @ (s * E[a])
                    gx, gy = fx + int(D[0]), fy + int(D[1])
                    if self.per:
                        gx %= self.Kx
                        gy %= self.Ky
                    elif not (0 <= gx < self.Kx and 0 <= gy < self.Ky):
                        links.append(None)
                        continue
                    g = self.fidx(gx, gy)
                    found = None
                    for b in "XY":
                        for s2 in (-1, 1):
                            if (self.or_[g] @ (s2 * E[b]) == -D).all():
                                found = (b, s2)
                    b, s2 = found
                    rev = s == s2
                    ta = self.or_[f] @ E["Y" if a == "X" else "X"]
                    tb = self.or_[g] @ E["Y" if b == "X" else "X"]
                    aligned = bool((ta == tb).all())
                    want_aligned = True if a == b else rev
                    if aligned != want_aligned:
                        return None
                    links.append((g, b, bool(rev)))
                t[f][a] = tuple(links)
        return t

    def cut(self, G):
        """G[J, I] global field -> faces[f, j, i]."""
        N = self.N
        out = np.empty((self.nf, N, N), G.dtype)
        for f in range(self.nf):
            for j in range(N):
                for i in range(N):
                    I, J = self.l2g(f, i, j)
                    out[f, j, i] = G[J, I]
        return out

    def neighbour(self, f, i, j):
        """Global cell under the (possibly virtual) local cell (i, j) of face f, or None beyond an open edge."""
        return self.wrapcell(*self.l2g(f, i, j))

    # ---- C-grid vector fields -------------------------------------------------------------------
    def edge_value(self, Ue, Ve, I, J, d):
        """Value and axis of the global edge of global cell (I, J) on its side d (unit vector)."""
        if d[0] == 1:
            return Ue[J, I + 1]
        if d[0] == -1:
            return Ue[J, I]
        if d[1] == 1:
            return Ve[J + 1, I]
        return Ve[J, I]

    def local_component(self, Ue, Ve, f, axis, side=-1):
        """Local component along `axis` on the `side` (-1: left/lower, +1: right/upper) edge of each cell of face f,
        signed along the local axis."""
        N = self.N
        out = np.empty((N, N))
        D = self.or_[f] @ E[axis]
        sgn = int(D[0] + D[1])
        for j in range(N):
            for i in range(N):
                I, J = self.l2g(f, i, j)
                out[j, i] = self.edge_value(Ue, Ve, I, J, side * D) * sgn
        return out


def all_orientations(Kx, Ky, N, periodic, pool=D4):
    for ors in itertools.product(range(len(pool)), repeat=Kx * Ky):
        T = Topo(Kx, Ky, N, [pool[k] for k in ors], periodic)
        t = T.table()
        if t is not None:
            yield T, t


def random_topo(rng, Kx, Ky, N, periodic, pool=None, tries=4000, nonreversed=False):
    pool = D4 if pool is None else pool
    for _ in range(tries):
        T = Topo(Kx, Ky, N, [pool[rng.randrange(len(pool))] for _ in range(Kx * Ky)], periodic)
        t = T.table()
        if t is None:
            continue
        if nonreversed and any(lk and lk[2] for d in t.values() for lr in d.values() for lk in lr):
            continue
        return T, t
    return None, None


def orient_ids(T):
    return [next(k for k, M in enumerate(D4) if (M == O).all()) for O in T.or_]
