"""Hand-written array extension (no np.pad): the reference for every padding oracle."""
import numpy as np


def pad_axis(a, ax, lo, hi, rule, fv=0.0):
    """Extend ndarray ``a`` along numpy axis ``ax`` by lo cells before and hi cells after."""
    a = np.asarray(a)
    n = a.shape[ax]
    parts = []
    for i in range(-lo, n + hi):
        if 0 <= i < n:
            parts.append(np.take(a, [i], axis=ax))
        elif rule == "fill":
            shp = list(a.shape)
            shp[ax] = 1
            parts.append(np.full(shp, fv, dtype=a.dtype))
        elif rule == "extend":
            parts.append(np.take(a, [0 if i < 0 else n - 1], axis=ax))
        elif rule == "periodic":
            parts.append(np.take(a, [i % n], axis=ax))
        else:
            raise ValueError(rule)
    if not parts:
        return np.take(a, [], axis=ax)
    return np.concatenate(parts, axis=ax)


def pad_value(a, idx, rule, fv):
    """Value (sub-array) at index idx of the last axis of a, beyond the ends by the rule."""
    n = a.shape[-1]
    if 0 <= idx < n:
        return a[..., idx]
    if rule == "fill":
        return np.full(a.shape[:-1], fv, dtype=float)
    if rule == "extend":
        return a[..., 0] if idx < 0 else a[..., -1]
    if rule == "periodic":
        return a[..., idx % n]
    raise ValueError(rule)
