"""Encoders spec -> COMODO attributes and spec -> SGRID attributes (C14).

A spec is {axis: {"n": N, "pos": {position: dim}}}; the encoders write what the convention tables prescribe for
that topology, so that parsing must give the spec back."""
import numpy as np

from ..gen import POS_LEN

PAD2POS = {"high": "left", "low": "right", "both": "inner", "none": "outer"}
POS2PAD = {v: k for k, v in PAD2POS.items()}


def comodo_dataset(spec, rng, extra_vars=True):
    import xarray as xr

    coords = {}
    for a, ax in spec.items():
        for p, d in ax["pos"].items():
            attrs = {"axis": a}
            if p == "left":
                attrs["c_grid_axis_shift"] = -0.5
            elif p == "right":
                attrs["c_grid_axis_shift"] = 0.5
            elif p in ("inner", "outer"):
                attrs["c_grid_axis_shift"] = rng.choice([-0.5, 0.5])
            elif rng.random() < 0.3:
                attrs["c_grid_axis_shift"] = rng.choice([0, 0.0])
            coords[d] = ((d,), np.arange(ax["n"] + POS_LEN[p], dtype=float), attrs)
    items = list(coords.items())
    rng.shuffle(items)
    ds = xr.Dataset(coords=dict(items))
    # coordinates that are not dimensions may carry an axis attribute too (a 2-D longitude tagged axis="X"; the scalar left
    # behind by selecting one level of a staggered coordinate): positions are dimensions, so these never take part
    axes = list(spec)
    if rng.random() < 0.3:
        a = rng.choice(axes)
        ds = ds.assign_coords({"scalar_level_" + str(a): ((), 2.5, {"axis": a, "c_grid_axis_shift": rng.choice([-0.5, 0.5])})})
    if rng.random() < 0.3:
        a = rng.choice(axes)
        dims2 = [ax["pos"]["center"] for ax in spec.values() if "center" in ax["pos"]][:2]
        if dims2:
            shp = [ds.sizes[d] for d in dims2]
            ds = ds.assign_coords({"geo_" + str(a): (tuple(dims2), np.arange(int(np.prod(shp)), dtype=float).reshape(shp), {"axis": a})})
    return ds


def sgrid_attrs(spec, kind, rng, entry_order_seed=None):
    """spec axes X, Y, Z in that order; every axis has center + exactly one node position."""
    sp = lambda: rng.choice([": ", ":"])  # noqa: E731

    def cell(a):
        c = spec[a]["pos"]["center"]
        (p, nd), = [(p, d) for p, d in spec[a]["pos"].items() if p != "center"]
        return f"{c}{sp()}{nd} (padding{sp()}{POS2PAD[p]})"

    def node(a):
        (nd,) = [d for p, d in spec[a]["pos"].items() if p != "center"]
        return nd

    def cells(axes):
        # every entry names its own node dimension, so the entries need not follow the order of node_dimensions
        axes = list(axes)
        if entry_order_seed is not None:
            import random as _r

            _r.Random(entry_order_seed).shuffle(axes)
        return " ".join(cell(a) for a in axes)

    attrs = {"cf_role": "grid_topology", "topology_dimension": {"1d": 1, "2d": 2, "2dv": 2, "3d": 3}[kind]}
    if kind == "1d":
        attrs["node_dimensions"] = node("X")
        attrs["face_dimensions"] = cell("X")
    elif kind == "2d":
        attrs["node_dimensions"] = " ".join(node(a) for a in "XY")
        attrs["face_dimensions"] = cells("XY")
    elif kind == "2dv":
        attrs["node_dimensions"] = " ".join(node(a) for a in "XY")
        attrs["face_dimensions"] = cells("XY")
        attrs["vertical_dimensions"] = cell("Z")
    elif kind == "3d":
        attrs["node_dimensions"] = " ".join(node(a) for a in "XYZ")
        attrs["volume_dimensions"] = cells("XYZ")
    return attrs


def sgrid_dataset(spec, kind, rng, with_comodo=False, entry_order_seed=None):
    import xarray as xr

    attrs = sgrid_attrs(spec, kind, rng, entry_order_seed)
    # read from a file the integer attribute is a NumPy scalar (int32 in netCDF-3), written by hand a Python int
    attrs["topology_dimension"] = rng.choice([int, int, np.int32, np.int64, np.int16])(attrs["topology_dimension"])
    sizes = {}
    for a, ax in spec.items():
        for p, d in ax["pos"].items():
            sizes[d] = ax["n"] + POS_LEN[p]
    dl = list(sizes.items())
    rng.shuffle(dl)
    coords = {}
    for d, L in dl:
        cattrs = {}
        if with_comodo:
            # contradicting COMODO annotation: everything claims to be the centre of a single axis "Q"
            cattrs = {"axis": "Q" + d}
        coords[d] = ((d,), np.arange(L, dtype=float), cattrs)
    ds = xr.Dataset(
        {"grid": ((), np.int32(1), attrs)},
        coords=coords,
        attrs={rng.choice(["Conventions", "conventions"]): rng.choice(["SGRID-0.3", "CF-1.6, SGRID-0.3", "sgrid", "Sgrid-1", "CF-1.8 SGRID-0.3", "CF-1.8 ACDD-1.3 SGRID-0.3",
                                                                    "SGRID-0.3 CF-1.8", "CF-1.6,SGRID-0.3"])},
    )
    if rng.random() < 0.25:
        # the topology container may be held as a (scalar, non-index) coordinate instead of a data variable
        ds = ds.set_coords("grid")
    return ds
