"""Face-connection tables: reciprocity predicate (C17), random reciprocal tables, and the array-level
statement of what a halo cell holds (C05), read directly off the table (no geometry)."""


def norm(t):
    """{face: {axis: [left, right]}} with links as tuples/None (JSON round trip gives lists)."""
    out = {}
    for f, d in t.items():
        out[int(f)] = {}
        for a, lr in d.items():
            out[int(f)][a] = tuple(None if l is None else (l[0], l[1], bool(l[2])) for l in lr)
    return out


def reciprocal(t, faces, axes):
    """True iff every link names an existing face and axis and is reciprocated on the side implied by
    the reverse flag by a link back to the originating face and axis with the same flag."""
    for f, d in t.items():
        for a, lr in d.items():
            if len(lr) != 2:
                return False
            for s, lk in enumerate(lr):
                if lk is None:
                    continue
                g, b, rev = lk
                if g not in faces or b not in axes or a not in axes:
                    return False
                s2 = s if rev else 1 - s
                try:
                    back = t[g][b][s2]
                except (KeyError, IndexError):
                    return False
                if back is None:
                    return False
                if (back[0], back[1], bool(back[2])) != (f, a, bool(rev)):
                    return False
    return True


def random_reciprocal(rng, nf, axes=("X", "Y"), p_link=0.85, drop_empty=0.1, self_links=True):
    """Pair up free edge slots (face, axis, side); same side => reversed link."""
    slots = [(f, a, s) for f in range(nf) for a in axes for s in (0, 1)]
    rng.shuffle(slots)
    t = {f: {a: [None, None] for a in axes} for f in range(nf)}
    free = list(slots)
    while len(free) >= 2 and rng.random() < p_link:
        s1 = free.pop()
        cands = [j for j, s2 in enumerate(free) if self_links or s2[0] != s1[0]]
        if not cands:
            break
        s2 = free.pop(rng.choice(cands))
        (f, a, s), (g, b, s2s) = s1, s2
        rev = s == s2s
        t[f][a][s] = (g, b, rev)
        t[g][b][s2s] = (f, a, rev)
    if self_links and free and rng.random() < 0.3:
        # a slot linked to itself: necessarily reversed and same axis
        f, a, s = free.pop()
        t[f][a][s] = (f, a, True)
    out = {}
    for f, d in t.items():
        out[f] = {}
        for a, v in d.items():
            if any(v) or rng.random() >= drop_empty:
                out[f][a] = tuple(v)
    return out


def halo_source(t, n, f, a, side, k, p):
    """Which cell fills the halo of face f beyond `side` (0 left, 1 right) of axis a at depth k>=1 and
    along-edge index p.  -> None (unlinked) or (g, b, depth_index_along_b, along_edge_index, partner, reversed)
    where partner says the source array is the *other* component for vector inputs (axis-swapping link)."""
    lk = t[f].get(a, (None, None))[side]
    if lk is None:
        return None
    g, b, rev = lk
    if not rev:
        d = (k - 1) if side == 1 else (n - k)
    else:
        d = (n - k) if side == 1 else (k - 1)
    pp = p if (a == b or rev) else n - 1 - p
    return g, b, d, pp, a != b, rev


def halo_sign(vector_axis, a, b, rev):
    """Sign applied to a vector component: negated exactly when the link reverses its direction:
    the normal component under a reversed link, the tangential one under an axis-swapping non-reversed link."""
    if vector_axis is None:
        return 1
    s = 1
    if rev and vector_axis == a:
        s = -s
    if a != b and not rev and vector_axis != a:
        s = -s
    return s


def link_kind(side, a, b, rev):
    return ("right" if side else "left", "same" if a == b else "swapped", "reversed" if rev else "normal")


def listed_in_order(t, seed):
    """The same table with its faces (and the axes within each face) inserted in a seeded random order: the order in
    which a caller happens to list the links is not part of the topology."""
    import random

    r = random.Random(seed)
    faces = list(t)
    r.shuffle(faces)
    out = {}
    for f in faces:
        ax = list(t[f])
        r.shuffle(ax)
        out[f] = {a: t[f][a] for a in ax}
    return out


def spelled(t, seed):
    """The same table written the way a JSON / YAML file delivers it: links and / or pairs as lists instead of tuples
    (a quarter each: tuples, list links, list pairs, both).  The spelling is not part of the topology."""
    how = ["tuples", "list-links", "list-pairs", "lists"][int(seed) % 4]
    # ... and the reverse flag the way a computed table delivers it: a NumPy boolean (the result of a comparison) or 0 / 1
    # (in a third of the tables each; the flag is a truth value, not an object)
    flag = [None, "numpy", "int"][(int(seed) // 4) % 3]
    if flag:
        import numpy as np

        cv = (lambda b: np.bool_(b)) if flag == "numpy" else (lambda b: int(b))
        t = {f: {a: tuple(x if x is None else (x[0], x[1], cv(x[2])) for x in lr) for a, lr in d.items()} for f, d in t.items()}
    if how == "tuples":
        return t
    lk = (lambda x: x if x is None else list(x)) if how != "list-pairs" else (lambda x: x)
    pr = list if how != "list-links" else tuple
    return {f: {a: pr(lk(x) for x in lr) for a, lr in d.items()} for f, d in t.items()}
