"""Schedulers for the 'schedules' quantifier: synchronous, thread pools of several widths and a seeded
chaos executor (random per-task delays on a pool, so the completion / ready order varies with the seed),
plus a dask Callback that counts graph executions and records the task execution order."""
import hashlib
import random
import threading
import time
from concurrent.futures import ThreadPoolExecutor

import dask
import dask.local
from dask.callbacks import Callback


class Count(Callback):
    """n = number of graph executions started while active; keys = order in which tasks were started."""

    def __init__(self):
        self.n = 0
        self.keys = []
        self._lock = threading.Lock()

    def _start(self, dsk):
        with self._lock:
            self.n += 1

    def _pretask(self, key, dsk, state):
        with self._lock:
            self.keys.append(str(key))

    def order_hash(self):
        # task names carry tokens that are identical for identical graphs, so the hash identifies the order
        return hashlib.md5("|".join(self.keys).encode()).hexdigest()[:10]


class ChaosExecutor:
    def __init__(self, seed, workers, max_delay=0.002):
        self.rng = random.Random(seed)
        self.pool = ThreadPoolExecutor(workers)
        self.max_delay = max_delay
        self._lock = threading.Lock()

    def submit(self, fn, *a, **k):
        with self._lock:
            d = self.rng.random() * self.max_delay
        if self.rng.random() < 0.3:
            d = 0.0

        def run():
            if d:
                time.sleep(d)
            return fn(*a, **k)

        return self.pool.submit(run)


def chaos_get(seed, workers):
    def get(dsk, keys, **kw):
        ex = ChaosExecutor(seed, workers)
        try:
            return dask.local.get_async(ex.submit, workers, dsk, keys, **kw)
        finally:
            ex.pool.shutdown()

    return get


def scheduler(spec):
    """spec: 'synchronous' | ['threads', k] | ['chaos', seed, workers] -> kwargs for .compute()"""
    if spec == "synchronous":
        return {"scheduler": "synchronous"}
    if spec[0] == "threads":
        return {"scheduler": "threads", "num_workers": spec[1]}
    if spec[0] == "chaos":
        return {"scheduler": chaos_get(spec[1], spec[2])}
    raise ValueError(spec)


def random_scheduler(rng):
    k = rng.random()
    if k < 0.2:
        return "synchronous"
    if k < 0.55:
        return ["threads", rng.choice([1, 2, 4, 16])]
    return ["chaos", rng.getrandbits(16), rng.choice([2, 3, 4, 8])]
