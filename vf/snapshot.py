"""Deep, comparison-friendly snapshots of the objects a caller hands to xgcm (C18).

A snapshot never computes a lazy array: dask-backed data is recorded as (dask name, chunks, dtype) - a dask graph
is immutable, so name equality is content equality - while numpy-backed data and coordinates are hashed by value."""
import hashlib

import numpy as np


def _h(a):
    a = np.asarray(a)
    if a.dtype == object:
        return ("obj", repr(a.tolist()))
    return (str(a.dtype), a.shape, hashlib.sha256(np.ascontiguousarray(a).tobytes()).hexdigest()[:16])


def _var(v):
    data = v.data
    if hasattr(data, "dask"):
        d = ("dask", data.name, tuple(map(tuple, data.chunks)), str(data.dtype))
    else:
        d = _h(data)
    return (tuple(v.dims), d, _attrs(v.attrs))


def _attrs(a):
    return tuple((str(k), repr(v)) for k, v in a.items())


def snap(x, _depth=0):
    import xarray as xr

    if isinstance(x, xr.DataArray):
        return ("DataArray", x.name, _var(x.variable), tuple((str(k), _var(c.variable)) for k, c in x.coords.items()),
                tuple(sorted(map(str, x.indexes))))
    if isinstance(x, xr.Dataset):
        return ("Dataset", tuple((str(k), _var(v)) for k, v in x.variables.items()), _attrs(x.attrs),
                tuple(map(str, x.coords)), tuple(sorted(map(str, x.dims))))
    if isinstance(x, dict):
        # keys, their order, member identity and member content
        return ("dict", tuple((repr(k), id(v), snap(v, _depth + 1)) for k, v in x.items()))
    if isinstance(x, (list, tuple)):
        return (type(x).__name__, tuple(snap(v, _depth + 1) for v in x))
    if isinstance(x, np.ndarray):
        return ("ndarray", _h(x))
    if type(x).__name__ == "Grid" and hasattr(x, "axes"):
        return snap_grid(x)
    if type(x).__name__ == "GridUFunc" and hasattr(x, "signature"):
        # the options bound at definition time are state too: a call must not change them
        return ("GridUFunc", str(x.signature), snap(x.boundary_width), snap(x.boundary), snap(x.fill_value), repr(x.dask),
                repr(x.map_overlap), repr(x.pad_before_func))
    return ("value", repr(x))


_NA = "<not exposed under a known name>"


def _get(o, *names):
    """First of the given attributes the object has.  Public properties come first; the private names are those of
    the tree as delivered.  A refactoring that renames a private attribute makes that part of the snapshot blind
    (equal before and after) instead of crashing the monitor; history independence is then still judged behaviourally."""
    for n in names:
        try:
            return getattr(o, n)
        except AttributeError:
            continue
    return _NA


def snap_grid(g):
    axes = []
    for name, ax in g.axes.items():
        shifts = _get(ax, "default_shifts", "_default_shifts")
        axes.append((name, tuple(ax.coords.items()), _get(ax, "boundary", "_boundary"), repr(_get(ax, "fill_value", "_fill_value")),
                     tuple(sorted(shifts.items())) if isinstance(shifts, dict) else repr(shifts), _get(ax, "periodic", "_periodic")))
    fc = repr(_get(g, "_face_connections"))
    mets = []
    reg = _get(g, "_metrics")
    if isinstance(reg, dict):
        for k, lst in reg.items():
            mets.append((tuple(sorted(k)), tuple(snap(m) for m in lst) if isinstance(lst, (list, tuple)) else snap(lst)))
    ds = _get(g, "_ds")
    return ("Grid", tuple(axes), fc, _get(g, "_facedim"), tuple(sorted(mets, key=repr)), snap(ds) if ds is not _NA else _NA)


def diff(a, b, path="root"):
    """First difference between two snapshots, as a readable path."""
    if a == b:
        return None
    if type(a) is not type(b) or not isinstance(a, tuple) or len(a) != len(b):
        return f"{path}: {str(a)[:120]} -> {str(b)[:120]}"
    for i, (x, y) in enumerate(zip(a, b)):
        d = diff(x, y, f"{path}[{i}]")
        if d:
            return d
    return f"{path}: changed"
