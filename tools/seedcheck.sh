#!/bin/sh
# tools/seedcheck.sh <worktree-with-change> <demo.py> <check ids...>
# confirms the demonstration (fails with the change, passes on /repo) and runs the given checks against the changed tree
wt=$1; demo=$2; shift 2
cd "$(dirname "$0")/.."
echo "== demo with the change (expect non-zero)"; (cd $wt && PYTHONPATH=$wt:/verif/vf/shim /venv/bin/python $demo >/tmp/seed_demo_a_$(basename $wt).log 2>&1; echo "exit=$?"; tail -2 /tmp/seed_demo_a_$(basename $wt).log | cut -c1-200)
echo "== demo on /repo (expect 0)"; (cd /repo && PYTHONPATH=/repo:/verif/vf/shim /venv/bin/python -P $wt/$demo >/tmp/seed_demo_b_$(basename $wt).log 2>&1; echo "exit=$?"; tail -1 /tmp/seed_demo_b_$(basename $wt).log | cut -c1-200)
for c in "$@"; do
  VERIF_REPO=$wt VERIF_EVIDENCE_DIR=/tmp/seed_ev ./check $c --tier quick > /tmp/seed_check_$c.log 2>&1
  echo "== $c rc=$? $(grep -m1 'oracle=' /tmp/seed_check_$c.log | cut -c1-220)"; tail -1 /tmp/seed_check_$c.log | cut -c1-160
done
