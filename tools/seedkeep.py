#!/venv/bin/python
"""tools/seedkeep.py <seed id> <worktree> <property> <demo file> <needs> <ran> : file a confirmed seeded break under seeded/<id>/"""
import json
import os
import shutil
import sys

sid, wt, prop, demo, needs, ran = sys.argv[1:7]
here = os.path.dirname(os.path.dirname(os.path.abspath(__file__)))
d = os.path.join(here, "seeded", sid)
os.makedirs(d, exist_ok=True)
shutil.copy(os.path.join(wt, "patch.diff"), os.path.join(d, "patch.diff"))
shutil.copy(os.path.join(wt, demo), os.path.join(d, demo))
json.dump({"id": sid, "breaks_property": prop, "author": "independent sub-agent given only the property text and a scratch worktree",
           "needs_to_manifest": needs, "demonstration": demo, "confirmed": ran}, open(os.path.join(d, "meta.json"), "w"), indent=1)
print("kept", d)
