#!/venv/bin/python
"""Sensitivity self-test: apply each deliberate break to a scratch copy of /repo and expect the quick check to fail.

    tools/selftest.py [ids or property ids ...]      (not a registered command: it needs /tmp)
"""
import json
import os
import shutil
import subprocess
import sys
import tempfile
import time
from concurrent.futures import ThreadPoolExecutor

HERE = os.path.dirname(os.path.dirname(os.path.abspath(__file__)))
sys.path.insert(0, HERE)
from mutants.mutants import EQUIVALENT, M  # noqa: E402


def run_one(mu, scale):
    scratch = tempfile.mkdtemp(prefix="xgcm-mut-")
    try:
        shutil.copytree("/repo/xgcm", os.path.join(scratch, "xgcm"), ignore=shutil.ignore_patterns("__pycache__"))
        p = os.path.join(scratch, "xgcm", mu["file"])
        s = open(p).read()
        if mu["old"] not in s:
            return mu["id"], "STALE", 0.0, "old text not found"
        open(p, "w").write(s.replace(mu["old"], mu["new"], 1))
        env = dict(os.environ, VERIF_REPO=scratch, VERIF_EVIDENCE_DIR=os.path.join(scratch, "ev"), VERIF_SCALE=str(scale), VERIF_JOBS="4")
        t0 = time.time()
        r = subprocess.run([os.path.join(HERE, "check"), mu["property"], "--tier", "quick"], env=env, cwd=HERE, capture_output=True, text=True)
        dt = time.time() - t0
        first = next((l for l in r.stdout.splitlines() if l.startswith("  oracle=")), "")
        status = {0: "MISSED", 1: "caught", 2: "inconclusive"}.get(r.returncode, f"rc{r.returncode}")
        return mu["id"], status, dt, first.strip()[:160] or r.stdout.strip().splitlines()[-1][:160] if r.stdout.strip() else r.stderr[-160:]
    finally:
        shutil.rmtree(scratch, ignore_errors=True)


def main():
    sel = sys.argv[1:]
    scale = float(os.environ.get("SELFTEST_SCALE", "1"))
    todo = [mu for mu in M if not sel or mu["id"] in sel or mu["property"] in sel]
    res = []
    with ThreadPoolExecutor(4) as ex:
        for out in ex.map(lambda mu: run_one(mu, scale), todo):
            print("%-38s %-12s %5.1fs  %s" % out, flush=True)
            res.append(out)
    summary = {"caught": sum(1 for r in res if r[1] == "caught"), "total": len(res),
               "not_caught": [r[0] for r in res if r[1] != "caught" and r[0] not in EQUIVALENT],
               "equivalent_not_caught": [r[0] for r in res if r[1] != "caught" and r[0] in EQUIVALENT]}
    print(json.dumps(summary))
    json.dump({"results": [list(r) for r in res], "summary": summary}, open(os.path.join(HERE, "mutants", "last_selftest.json"), "w"), indent=1)


if __name__ == "__main__":
    main()
