#!/venv/bin/python
"""Regenerates MANIFEST.json from the table below (kept here so that the manifest stays valid)."""
import json
import os

HERE = os.path.dirname(os.path.dirname(os.path.abspath(__file__)))

BASE_OFF = ("cd /repo && env -u XGCM_VERIF /venv/bin/python -m pytest -ra -q -p no:cacheprovider --timeout=900 "
            "--continue-on-collection-errors")

NOTE = ("Trusted base: CPython 3.12, numpy/xarray/dask wheels as installed; the reference models under "
        "/verif/vf/models; for transform-related behaviour the pure-Python numba stand-in /verif/vf/shim. "
        "A run decides only the executions it produced (seeded, reproducible with VERIF_SEED).")

CHECKS = {}


def add(cid, technique, text, ref):
    CHECKS[cid] = dict(technique=technique, text=text, ref=ref)


exec(open(os.path.join(HERE, "tools", "manifest_table.py")).read())

props = [json.loads(l)["id"] for l in open(os.path.join(HERE, "properties.jsonl"))]
checks = []
na = []
for pid in props:
    if pid in CHECKS and os.path.exists(os.path.join(HERE, "vf", "checks", pid.lower() + ".py")):
        c = CHECKS[pid]
        checks.append({
            "property_id": pid,
            "quick_cmd": f"./check {pid} --tier quick",
            "thorough_cmd": f"./check {pid} --tier thorough",
            "evidence_file": f"evidence/{pid}.json",
            "replay_cmd_template": f"./check {pid} --replay {{path}}",
            "engine": "vf",
            "level_claimed": {"category": "exploration", "text": c["text"], "design_ref": c["ref"]},
            "level_note": NOTE,
            "technique": c["technique"],
        })
    else:
        na.append({"property_id": pid, "reason": NOT_YET.get(pid, "check not implemented yet in this commit (work in progress; see DESIGN.md section 2)")})

m = {
    "version": 1,
    "setup_cmd": "/venv/bin/python -m compileall -q vf >/dev/null; mkdir -p evidence replays .work",
    "hooks": {
        "guard": "XGCM_VERIF",
        "enable": "no source hooks: the monitors interpose on xgcm's public entry points from outside the repository; "
                  "checks import /repo's working tree through PYTHONPATH and set XGCM_VERIF=1 in the child processes",
        "baseline_off_cmd": BASE_OFF,
        "source_commits": [],
        "add_only": True,
    },
    "engines": [{
        "name": "vf",
        "path": "vf/",
        "serves_properties": [c["property_id"] for c in checks],
        "kind_free_text": "runtime monitors: seeded workload generators drive the real xgcm code; reference-model "
                          "postconditions, shadow-state, differential (hash seed / renaming / chunking+scheduler) and "
                          "argument-snapshot monitors judge every observed call; sys.monitoring reach recorder",
    }],
    "checks": checks,
    "notes": "Verdicts are three-valued: exit 0 held, exit 1 violation (VIOLATION line), exit 2 inconclusive. "
             "known_findings.json is read-only at run time.",
    "not_applicable": na,
}
json.dump(m, open(os.path.join(HERE, "MANIFEST.json"), "w"), indent=1)
print("checks:", [c["property_id"] for c in checks], "not_applicable:", [n["property_id"] for n in na])
