#!/bin/sh
# tools/seedsuite.sh <worktree>... : run the repository's suite in each changed worktree, print the summary line
for wt in "$@"; do
  (cd $wt && PYTHONPATH=$wt /venv/bin/python -m pytest -q -p no:cacheprovider -n 8 xgcm/test 2>&1 | tail -1 | sed "s#^#$wt: #")
done
