#!/venv/bin/python
"""tools/seedprompt.py <property id> <worktree> : the prompt handed to an independent sub-agent (property text + what its
predecessors proposed, nothing about /verif's checks).  Not a registered command."""
import json
import os
import re
import sys

pid, wt = sys.argv[1:3]
here = os.path.dirname(os.path.dirname(os.path.abspath(__file__)))
prop = next(p for p in map(json.loads, open(os.path.join(here, "properties.jsonl"))) if p["id"] == pid)

# one-line descriptions of earlier proposals for this property, from the DESIGN table
prev = []
for line in open(os.path.join(here, "DESIGN.md")):
    m = re.match(r"\| (S\d+) \| (C\d\d)[^|]*\| ([^|]+)\| ([^|]+)\|", line)
    if m and m.group(2) == pid:
        prev.append(f"- {m.group(3).strip()} (needs: {m.group(4).strip()})")
# round 9 proposals were lost with a sandbox restore before they were filed; what is known of them:
ROUND9 = {
    "C03": "link tables spelt with lists instead of tuples", "C04": "link tables spelt with lists instead of tuples",
    "C05": "link tables spelt with lists instead of tuples", "C07": "integer / float32 data under dask (declared output dtype)",
    "C08": "integer-typed target_data", "C09": "axis given as an iterator / generator", "C11": "unusual memory layouts of the inputs",
    "C15": "empty arguments `()` in signatures", "C17": "`reverse` flag given as 0/1, numpy bool etc.",
    "C18": "metrics that are products of several registered metrics", "C19": "coordinate labels of the partner component",
    "C20": "wrong number of entries in other_component",
}
if pid in ROUND9:
    prev.append(f"- (a change exploiting) {ROUND9[pid]}")
# round 11 proposals were lost likewise (session interrupted before filing); the input classes they exploited:
ROUND11 = {
    "C06": "several axes each weighted by its own metric, lazily", "C07": "two lazy transforms evaluated in one computation; in-memory target_data next to lazy data",
    "C08": "target levels barely outside the range of target_data", "C09": "cumint after a metric was replaced with overwrite",
    "C10": "a metric replaced by one stored with transposed dimensions", "C11": "a kernel wrapped earlier with other options",
    "C12": "COMODO datasets with dimensions that belong to no axis", "C13": "names joined by an underscore; sequential metric requests on one Grid",
    "C14": "NumPy-typed topology_dimension attribute", "C15": "line break / tab characters in signature strings",
    "C18": "the deprecated 2-D vector wrappers raising half-way", "C20": "unknown word as a default shift; ufunc input with two dimensions of an axis; integer-typed bins",
}
if pid in ROUND11:
    prev.append(f"- (a change exploiting) {ROUND11[pid]}")

print(f"""You are helping to evaluate a verification harness for the Python library xgcm (xarray-based staggered-grid operations).
Your job is to play the adversary: write ONE realistic, subtle change to the library's source that BREAKS the property
below, while the library still imports and its whole existing test suite still passes.

Your private scratch copy of the repository (a git worktree, already created) is:  {wt}
Work ONLY there. Never touch /repo or /verif, never read anything under /verif (except that the directory /tmp/numba-shim may
be put on PYTHONPATH, see below), do not commit, do not edit or add files under xgcm/test.

THE PROPERTY ({pid}: {prop['title']})
{prop['statement']}
It must hold {prop['quantifier']['text']}.
(Code most involved: {', '.join(prop['anchors']['files'])}.)

WHAT I NEED FROM YOU
1. A change to the library source (xgcm/*.py, not tests) of the kind a plausible refactoring, optimisation or "clean-up" might
   introduce - a few lines, looking innocent in review - after which the property is violated for SOME inputs.
   It must need something specific to manifest: an unusual but legitimate input, a particular multi-step sequence of calls,
   a particular combination of options, two cooperating sites that each look fine alone, a particular chunking / laziness /
   dtype / naming / ordering ... NOT something that ordinary use or the existing tests would expose at once.
   It must be a change of behaviour that contradicts the property's statement for inputs the property quantifies over
   (not merely different error messages, not behaviour on inputs outside the statement).
2. The existing suite must still pass with your change. Run it:
     cd {wt} && PYTHONPATH={wt} /venv/bin/python -m pytest -q -p no:cacheprovider -n 6 xgcm/test 2>&1 | tail -3
   (takes ~5 minutes; expected on the unchanged tree: 4087 passed, 95 skipped, 48 xfailed, 8 xpassed - the same counts
   must come out with your change). Run the few relevant test files first while iterating, the full suite once at the end.
3. A demonstration program {wt}/demo_{pid}.py: a small self-contained script using only the public API that
   exits with status 0 on the UNCHANGED library and with a non-zero status (assert / sys.exit(1)) WITH your change, printing
   what it observed. It is run as
     cd {wt} && PYTHONPATH={wt}:/tmp/numba-shim /venv/bin/python demo_{pid}.py          (with the change -> non-zero)
     cd /repo && PYTHONPATH=/repo:/tmp/numba-shim /venv/bin/python -P {wt}/demo_{pid}.py  (unchanged -> 0)
   Check both yourself (reading /repo by running the demo against it is fine; do not modify it).
4. The patch: cd {wt} && git diff -- xgcm > patch.diff   (only your source change; demo and patch.diff stay untracked)

ENVIRONMENT
- Interpreter /venv/bin/python (3.12; numpy, xarray, dask, pytest-xdist installed). PYTHONPATH={wt} makes `import xgcm`
  use your copy (verify with `python -c "import xgcm; print(xgcm.__file__)"`).
- numba is not installed, so `import xgcm.transform` (and Grid.transform) fails unless /tmp/numba-shim (a pure-Python
  stand-in for numba.guvectorize) is on PYTHONPATH after your worktree. The test suite skips the transform tests without it;
  run the suite WITHOUT the shim, as in the command above.
- No network. 16 cores shared with other jobs: use at most -n 6.

ALREADY PROPOSED BY EARLIER ADVERSARIES FOR THIS PROPERTY - choose a DIFFERENT code site AND a different mechanism / input class:
{chr(10).join(prev) if prev else '- (none)'}

Think about which parts of the statement and of its quantifier (every ...) have NOT been attacked yet, and about code paths a
typical randomised tester drawing ordinary grids, float64 data, default options would be unlikely to drive.

REPORT BACK (plain text, short): (a) the change in one or two sentences and the file/function; (b) exactly what is needed for
the violation to manifest; (c) the last line of the full test-suite run with your change; (d) the output of the two demo runs;
(e) anything odd you noticed in the UNCHANGED library that looks like a genuine violation of the property (with a few lines to
reproduce) - this is valuable too.
""")
