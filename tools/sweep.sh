#!/bin/sh
# tools/sweep.sh <tier> <seed> [checks...]   -- runs the checks one after another, prints their last lines
tier=$1; seed=$2; shift 2
checks=${@:-C01 C02 C03 C04 C05 C06 C07 C08 C09 C10 C11 C12 C13 C14 C15 C16 C17 C18 C19 C20}
cd "$(dirname "$0")/.."; mkdir -p .work evidence replays
for c in $checks; do
  VERIF_SEED=$seed ./check $c --tier $tier > .work/sweep-$c-$tier-$seed.log 2>&1
  rc=$?
  echo "rc=$rc $(tail -1 .work/sweep-$c-$tier-$seed.log)"
  if [ $rc -ne 0 ]; then grep -E "VIOLATION|INCONCLUSIVE|oracle=" .work/sweep-$c-$tier-$seed.log | head -6; fi
done
