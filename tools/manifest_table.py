NOT_YET = {}
add("C01", "reference-model postcondition monitor at Grid.diff/interp/min/max over seeded random layouts and calls",
    "Every observed call is compared bit-exactly (exact-safe data) with an independent geometric stencil model; "
    "held means: no disagreement on the thousands of distinct (operator, shift, rule, spelling, layout) classes "
    "actually executed. Universal over an infinite input space, so exploration is the honest level.", "2/C01")
add("C02", "reference-model postcondition monitor at xgcm.padding.pad (resolution model + hand-written padding), spelling-differential",
    "Every observed pad() on a simple grid is compared cell by cell with the model for the rule/fill the statement says is in "
    "force; scalar vs mapping spellings are executed side by side and must agree bit-for-bit. One open finding "
    "(periodic list) is matched by mechanism.", "2/C02")
add("C09", "reference-model postcondition + metamorphic identities observed on real calls (inverse, order independence, cumint/integrate)",
    "cumsum results are compared bit-exactly with a geometric running-sum model and the four stated identities are "
    "checked on the observed results of the composed calls.", "2/C09")
add("C10", "acceptable-set oracle for get_metric + definitional identities for integrate/average/derivative/metric_weighted on observed results",
    "The metric returned must be one of the candidates the statement allows for the random registry (with warning and "
    "broadcastability), and the derived operations must equal their definition in terms of that metric.", "2/C10")
add("C17", "exhaustive enumeration of small link tables and of all edits of consistent tables against an independent reciprocity predicate; Grid() accept/refuse observed",
    "All 625 two-face tables and all single (thorough: all double) edits of seven consistent base tables are constructed for "
    "real and the accept/refuse outcome compared with the predicate; larger tables are sampled.", "2/C17")
add("C15", "independent scanner/canonicaliser as oracle over exhaustively enumerated small signatures and all single-character corruptions of sampled ones",
    "from_string/__str__/from_type_hints/equivalent are run on every generated string and compared with a hand-written "
    "recogniser, printer and first-appearance canonicaliser; bounded sub-languages are enumerated completely.", "2/C15")
add("C14", "round-trip monitor: independent convention encoders -> Grid(ds) autoparse -> compare with the spec and with the explicitly built Grid",
    "Random topologies are encoded into COMODO / SGRID attributes as the tables prescribe and must be parsed back exactly; "
    "operations on the parsed Grid must equal those on the explicit one.", "2/C14")
add("C16", "history monitor with an executable shadow registry, compared behaviourally after every call, plus one-at-a-time replay differential",
    "Every call of a generated registration history advances a small sequential model; after each call the real Grid is probed "
    "at every slot; histories <=2 over a small pool are enumerated completely, longer ones sampled.", "2/C16")
add("C19", "postcondition monitor on result labels (coordinate set/values/attrs/name) + metamorphic re-run with removed/scrambled input labels",
    "Every observed result is compared with the coordinate set the statement prescribes, computed from the grid dataset; "
    "values must be identical when the same call is repeated with other input labels.", "2/C19")
add("C11", "recording user function as probe inside apply_as_grid_ufunc; expected padded core blocks from signature + resolution + padding models",
    "The arrays actually received by a recording function are compared (unique-id data, order-agnostic over leading axes) with "
    "the model; options are supplied through every documented channel incl. definition-time != call-time values.", "2/C11")
add("C05", "table-level halo oracle over unique-id data at xgcm.padding.pad on face-connected grids; start-up cross-check against the geometric model",
    "Each padded array is compared cell by cell (corners excepted) with where the link table says the value comes from, "
    "including partner component and sign for vector inputs; all 8 link kinds are counted in the evidence.", "2/C05")
add("C03", "geometric reference-model postcondition on Grid.diff/interp/min/max over random D4 decompositions of an undivided global field",
    "Results on every face are compared bit-exactly with the stencil applied to the geometric neighbours in the undivided field; "
    "the table handed to xgcm is derived from the geometry, not copied from the implementation.", "2/C03")
add("C04", "global C-grid field cut into rotated faces; expected values from the true edge values of each cell; divergence identity; vector-vs-scalar differential on simple grids",
    "All rotation-only non-reversed topologies up to 3x2 are enumerated; results and the discrete divergence must equal those of the "
    "undivided field bit-exactly.", "2/C04")
add("C07", "weight-matrix extraction from the real kernel (identity as data) compared with exact rational overlap weights; metamorphic merge/reversal; Grid.transform eager vs dask",
    "The full linear map of every column is observed and compared with the exact overlap model; conservation, non-negativity, "
    "bin merging and reversal are judged on what the kernel returned. Runs on the pure-Python numba stand-in.", "2/C07")
add("C08", "reference-model postcondition (own bracketing search, exact rational formula) at interp_1d_linear and Grid.transform(linear/log), incl. names and dask over non-axis dims",
    "Every returned value, NaN placement, dimension name and result name is compared with the model for random columns, "
    "level placements (nodes, ends, outside) and target spellings. Runs on the pure-Python numba stand-in.", "2/C08")
add("C06", "lazy/eager differential under many chunk compositions and schedules (synchronous, thread pools, seeded chaos executor with injected delays); dask callback counting graph executions during build",
    "Each lazy result is built under a callback that must see no graph execution, then computed under 2-3 schedulers and "
    "compared (values bit-exact, dims, coords, name) with the in-memory result; the number of distinct task execution orders "
    "actually observed is in the evidence.", "2/C06")
add("C12", "differential over fresh interpreters started with different PYTHONHASHSEED (byte-identical canonical records), plus in-process permutation of the link table's insertion order",
    "No model of the right answer is needed: the same seeded scenarios must give identical records under every hash seed tried; "
    "the evidence counts the distinct set iteration orders actually exercised.", "2/C12")
add("C13", "metamorphic differential: the same role-level call sequence instantiated under ordinary and under hostile injective namings; records compared after mapping labels back",
    "Every call's accept/reject outcome, role-mapped dims, shape and value hash must be identical under the renaming; hostile "
    "identifiers cover single letters, position-word fragments, prefix chains, case variants and the library's temporary names.", "2/C13")
add("C18", "argument-snapshot monitor (deep snapshots of every argument object and of the Grid before/after each call, return or raise) + fresh-object replay differential over call histories",
    "Histories of up to three operations re-use the same dictionaries and arrays; snapshots must be equal around every call and "
    "each outcome must equal that of the same call made first on freshly built objects.", "2/C18")
add("C20", "edit engine over the valid-call corpora of the other checks: one ill-posing edit per case; observed outcome must be an exception, never an array",
    "Each generated valid call is first confirmed to be accepted, then edited into an ill-posed request from the listed classes "
    "(tagged consulted / unconsulted) and executed; the oracle only needs the outcome type.", "2/C20")
