NOT_YET = {}
add("C01", "reference-model postcondition monitor at Grid.diff/interp/min/max over seeded random layouts and calls",
    "Every observed call is compared bit-exactly (exact-safe data) with an independent geometric stencil model; "
    "held means: no disagreement on the thousands of distinct (operator, shift, rule, spelling, layout) classes "
    "actually executed. Universal over an infinite input space, so exploration is the honest level.", "2/C01")
