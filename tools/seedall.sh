#!/bin/sh
# tools/seedall.sh [seed ids...] : apply each seeded patch to /repo, run the quick check of the property it breaks
# (expect exit 1), undo the patch.  Not a registered command.  Never leaves /repo modified.
cd "$(dirname "$0")/.."
if [ -n "$(git -C /repo status --porcelain)" ]; then echo "/repo is not clean"; exit 2; fi
seeds=${@:-$(ls seeded)}
for s in $seeds; do
  prop=$(/venv/bin/python -c "import json;print(json.load(open('seeded/$s/meta.json'))['breaks_property'])")
  if ! git -C /repo apply "$PWD/seeded/$s/patch.diff" 2>/tmp/seedall_apply.err; then echo "$s $prop PATCH-DOES-NOT-APPLY $(head -1 /tmp/seedall_apply.err)"; continue; fi
  VERIF_EVIDENCE_DIR=/tmp/seed_ev ./check $prop --tier quick > /tmp/seedall_$s.log 2>&1; rc=$?
  git -C /repo checkout -- .
  echo "$s $prop rc=$rc $(grep -m1 'oracle=' /tmp/seedall_$s.log | cut -c1-120)"
done
git -C /repo status --porcelain | head -3
