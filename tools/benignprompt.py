#!/venv/bin/python
"""tools/benignprompt.py <property id> <worktree> : prompt for a sub-agent that writes property-PRESERVING changes
(refactorings that alter only what the statement leaves open), used to look for false alarms of the checks.
Not a registered command."""
import json
import os
import sys

pid, wt = sys.argv[1:3]
here = os.path.dirname(os.path.dirname(os.path.abspath(__file__)))
prop = next(p for p in map(json.loads, open(os.path.join(here, "properties.jsonl"))) if p["id"] == pid)

print(f"""You are helping to evaluate a verification harness for the Python library xgcm (xarray-based staggered-grid operations).
The harness claims to decide the property below by running the real code under monitors. A good harness never raises an
alarm on code for which the property HOLDS. Your job: write several realistic changes to the library that PRESERVE the
property for every input it quantifies over, but change as much as possible of what the statement leaves OPEN - so that a
checker which accidentally relies on incidental behaviour would raise a false alarm.

Your private scratch copy of the repository (a git worktree, already created) is:  {wt}
Work ONLY there. Never touch /repo or /verif, never read anything under /verif (the directory /tmp/numba-shim may be put on
PYTHONPATH, see below), do not commit, do not edit or add files under xgcm/test.

THE PROPERTY ({pid}: {prop['title']})
{prop['statement']}
It must hold {prop['quantifier']['text']}.
(Code most involved: {', '.join(prop['anchors']['files'])}.)

WHAT I NEED FROM YOU
Four to six INDEPENDENT small changes to the library source (xgcm/*.py, not tests), each of a kind a maintainer might really
commit (refactoring, optimisation, clean-up, better messages, defensive copies, renamed/split/inlined private helpers, ...),
each of which keeps the property true - argue briefly why for each - while changing something observable that the statement does
not fix. Ideas (use those that fit this property, and invent others): exception TYPES and messages for rejected input (as long
as it is still rejected); additional or removed warnings; private attribute / helper / module-level table names and structure;
the association order of floating-point operations where every order is exact or within an ulp or two (e.g. l/2 + r/2 vs (l+r)/2
is NOT always exact - be careful: only do this if the statement tolerates it); the order of dimensions, coordinates or attrs of
results WHERE the statement does not pin them; result names / attrs where not pinned; dask graph structure, task names, chunk
sizes of lazy results; dtype of results where not pinned (careful); laziness of coordinates; caching that is invisible through
the public API; validating earlier or later (still rejecting the same things); accepting additional spellings of arguments;
copying instead of viewing; iteration order of internal collections where the result does not depend on it.
Do NOT make changes that merely alter whitespace/comments, and do NOT change what the statement does fix.

For each change i = 1..k write {wt}/benign_i.diff (the diff of that change ALONE against the unchanged tree, made with
`git diff -- xgcm > benign_i.diff` while only that change is applied; use `git stash`/`git checkout -- xgcm` between them), and at
the end apply ALL of them together, write {wt}/benign_all.diff, and run the full suite once on the combined tree:
     cd {wt} && PYTHONPATH={wt} /venv/bin/python -m pytest -q -p no:cacheprovider -n 6 xgcm/test 2>&1 | tail -3
(~5 minutes; expected exactly as on the unchanged tree: 4087 passed, 95 skipped, 48 xfailed, 8 xpassed). While iterating run only
the relevant test files. If a change makes an existing test fail, drop or rework that change. Leave the combined tree in place.

ENVIRONMENT
- Interpreter /venv/bin/python (3.12; numpy, xarray, dask, pytest-xdist installed). PYTHONPATH={wt} makes `import xgcm` use
  your copy.
- numba is not installed, so `import xgcm.transform` (and Grid.transform) fails unless /tmp/numba-shim (a pure-Python stand-in
  for numba.guvectorize) is on PYTHONPATH after your worktree; run the suite WITHOUT the shim.
- No network. 16 cores shared with other jobs: use at most -n 6.

REPORT BACK (plain text, short): for each benign_i.diff one or two sentences: what changes observably, and why the property still
holds for every quantified input; then the last line of the full-suite run on the combined tree.
""")
