#!/bin/sh
# tools/seedall_wt.sh [seed ids...] : like seedall.sh, but applies each seeded patch to a scratch worktree of /repo's HEAD
# (under /tmp, removed at the end) and runs the quick check of the broken property with VERIF_REPO pointing at it, so /repo
# itself is never touched and other runs may use it meanwhile.  Not a registered command.
cd "$(dirname "$0")/.."
wt=/tmp/wt/seedtree.$$; mkdir -p /tmp/wt /tmp/seed_ev
git -C /repo worktree add --detach $wt HEAD >/dev/null 2>&1 || exit 2
seeds=${@:-$(ls seeded)}
for s in $seeds; do
  prop=$(/venv/bin/python -c "import json;print(json.load(open('seeded/$s/meta.json'))['breaks_property'])")
  if ! git -C $wt apply "$PWD/seeded/$s/patch.diff" 2>/tmp/wt/seedall_apply.err; then echo "$s $prop PATCH-DOES-NOT-APPLY $(head -1 /tmp/wt/seedall_apply.err)"; continue; fi
  VERIF_REPO=$wt VERIF_EVIDENCE_DIR=/tmp/seed_ev ./check $prop --tier quick > /tmp/wt/seedall_$s.log 2>&1; rc=$?
  git -C $wt checkout -- .
  echo "$s $prop rc=$rc $(grep -m1 'oracle=' /tmp/wt/seedall_$s.log | cut -c1-120)"
done
git -C /repo worktree remove --force $wt
