#!/bin/sh
# tools/benignrun.sh <worktree> [checks...] : run the quick checks against a tree carrying property-preserving changes;
# every non-zero exit is a false alarm (or a broken harness) to investigate.  Not a registered command.
wt=$1; shift
checks=${@:-C01 C02 C03 C04 C05 C06 C07 C08 C09 C10 C11 C12 C13 C14 C15 C16 C17 C18 C19 C20}
cd "$(dirname "$0")/.."
tag=$(basename $wt)
for c in $checks; do
  VERIF_REPO=$wt VERIF_EVIDENCE_DIR=/tmp/seed_ev ./check $c --tier quick > /tmp/wt/$tag-$c.log 2>&1; rc=$?
  echo "$tag $c rc=$rc $(grep -m1 'oracle=\|INCONCL' /tmp/wt/$tag-$c.log | cut -c1-260)"
done
